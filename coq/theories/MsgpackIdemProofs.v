(* MsgpackIdemProofs.v — MessagePack -> MessagePack through the models is
   idempotent for EVERY input: whatever bytes the reader model decodes - any
   width the integers and lengths were spelled in - the bytes xt writes for them
   are the canonical encoding of encodable values, which both loops then
   reproduce byte for byte (MsgpackCodecProofs.v).  The missing step: what the
   decoder reads from ANY byte string is, up to the integer widths the writer
   ignores, the event list of an encodable value. *)
From XtModel Require Import Base MsgpackModel MsgpackProofs MsgpackDecProofs MsgpackAgreeProofs MsgpackCodecProofs.
Require Import ZifyBool ZifyNat ZifyN.
Ltac Zify.zify_post_hook ::= Z.div_mod_to_equations.

(* a byte string: every element below 256 *)
Definition bytes_ok (l : bytes) : Prop := Forall (fun b => (b < 256)%N) l.

Lemma be_bound bs : bytes_ok bs -> (be bs < 256 ^ len_n bs)%N.
Proof.
  induction bs as [|b bs IH] using rev_ind; intros H; [cbn; lia|].
  apply Forall_app in H as (H1 & H2). inversion H2 as [|? ? Hb _]; subst.
  rewrite be_snoc. unfold len_n in *. rewrite app_length. cbn [length].
  replace (N.of_nat (length bs + 1)) with (N.succ (N.of_nat (length bs))) by lia.
  rewrite N.pow_succ_r'. specialize (IH H1). lia.
Qed.

Lemma take_n_bytes n inp a b : take_n n inp = Some (a, b) -> bytes_ok inp -> bytes_ok a /\ bytes_ok b /\ len_n a = n.
Proof.
  intros H Hi. apply take_n_some in H as (Hle & -> & ->).
  pose proof (firstn_skipn (N.to_nat n) inp) as E. unfold bytes_ok in *. rewrite <- E in Hi. apply Forall_app in Hi as (H1 & H2).
  repeat split; try assumption. unfold len_n in *. rewrite firstn_length. lia.
Qed.

(* ---------- what the markers promise (a sweep over the 256 of them) ---------- *)

Definition mk_ok (m : N) : bool :=
  match classify m with
  | MkScalar p => ((p =? 0) && ((m <? 128) || (m =? 192) || (m =? 194) || (m =? 195) || (224 <=? m))
                   || (p =? 4) && ((m =? 202) || (m =? 206) || (m =? 210))
                   || (p =? 8) && ((m =? 203) || (m =? 207) || (m =? 211))
                   || (p =? 1) && ((m =? 204) || (m =? 208))
                   || (p =? 2) && ((m =? 205) || (m =? 209)))%N
  | MkStrFix n => (n <? 32)%N
  | MkStrLen w | MkBinLen w | MkExtLen w | MkArrLen w | MkMapLen w => (w <=? 4)%nat && (1 <=? w)%nat
  | MkArrFix n | MkMapFix n => (n <? 16)%N
  | _ => true
  end.

Lemma classify_sweep : forallb (fun i => mk_ok (N.of_nat i)) (seq 0 256) = true.
Proof. vm_compute. reflexivity. Qed.

Lemma classify_ok m : (m < 256)%N -> mk_ok m = true.
Proof.
  intros H. pose proof classify_sweep as S. rewrite forallb_forall in S.
  specialize (S (N.to_nat m)). replace (N.of_nat (N.to_nat m)) with m in S by lia. apply S. apply in_seq. lia.
Qed.

(* ---------- scalars ---------- *)

(* the value a scalar event stands for, whatever width it was spelled in *)
Definition ev_val (e : ev) : mval :=
  match e with
  | EUnit => VNil
  | EBool b => VBool b
  | EUInt _ n => VUInt n
  | ESInt _ z => if (z <? 0)%Z then VNeg z else VUInt (Z.to_N z)
  | EF32 b => VF32 b
  | EF64 b => VF64 b
  | EStr s => VStr s
  | EBytes s => VBin s
  | _ => VNil
  end.

Lemma ev_val_enc e : (match e with ESeq _ | ESeqEnd | EMap _ | EMapEnd | EExt _ => False | _ => True end) ->
  enc_ev e = enc_val (ev_val e).
Proof.
  destruct e as [ |b|w n|w z|b|b|s|s|n| |n| |n]; intros H; try contradiction; cbn [ev_val];
    try (symmetry; apply enc_val_single; reflexivity).
  { rewrite (enc_val_single (EUInt (uwidth n) n)) by reflexivity. reflexivity. }
  destruct (z <? 0)%Z eqn:E.
  - rewrite (enc_val_single (ESInt (swidth z) z)) by reflexivity. reflexivity.
  - rewrite (enc_val_single (EUInt (uwidth (Z.to_N z)) (Z.to_N z))) by reflexivity.
    cbn [enc_ev]. unfold enc_sint. now rewrite E.
Qed.

Lemma to_signed_bounds bits n : bits = 8 \/ bits = 16 \/ bits = 32 \/ bits = 64 -> (n < 2 ^ N.of_nat bits)%N ->
  (- 9223372036854775808 <= to_signed bits n < 9223372036854775808)%Z.
Proof.
  intros [-> | [-> | [-> | ->]]] H; unfold to_signed;
    match goal with |- context [(n <? ?c)%N] => let c' := eval vm_compute in c in change c with c' end;
    match type of H with (_ < ?c)%N => let c' := eval vm_compute in c in change c with c' in H end;
    match goal with |- context [(2 ^ Z.of_nat ?k)%Z] => let c' := eval vm_compute in (2 ^ Z.of_nat k)%Z in change (2 ^ Z.of_nat k)%Z with c' end;
    match goal with |- context [(n <? ?c)%N] => destruct (n <? c)%N eqn:E end; lia.
Qed.

Section Canon.
  Variable utf8_valid : bytes -> bool.
  Notation wfb := (wfb utf8_valid).

  Lemma scalar_canon m p field : (m < 256)%N -> classify m = MkScalar p -> bytes_ok field -> len_n field = p ->
    wfb (ev_val (scalar_ev m field)) = true /\ depth (ev_val (scalar_ev m field)) = 0 /\
    enc_ev (scalar_ev m field) = enc_val (ev_val (scalar_ev m field)).
  Proof.
    intros Hm Hc Hf Hl. pose proof (classify_ok m Hm) as Hok. unfold mk_ok in Hok. rewrite Hc in Hok.
    pose proof (be_bound field Hf) as Hb. rewrite Hl in Hb.
    assert (Henc : forall e, (match e with ESeq _ | ESeqEnd | EMap _ | EMapEnd | EExt _ => False | _ => True end) ->
                   wfb (ev_val e) = true -> depth (ev_val e) = 0 ->
                   wfb (ev_val e) = true /\ depth (ev_val e) = 0 /\ enc_ev e = enc_val (ev_val e)).
    { intros e He W D. repeat split; try assumption. apply ev_val_enc. exact He. }
    unfold scalar_ev.
    destruct (m <? 128)%N eqn:E0; [apply Henc; [exact I|cbn [ev_val MsgpackCodecProofs.wfb]; lia|reflexivity]|].
    destruct (m =? 192)%N eqn:E1; [apply Henc; [exact I|reflexivity|reflexivity]|].
    destruct (m =? 194)%N eqn:E2; [apply Henc; [exact I|reflexivity|reflexivity]|].
    destruct (m =? 195)%N eqn:E3; [apply Henc; [exact I|reflexivity|reflexivity]|].
    destruct (m =? 202)%N eqn:E4.
    { assert (Hp : p = 4%N) by lia. rewrite Hp in Hb. change (256 ^ 4)%N with 4294967296%N in Hb.
      apply Henc; [exact I|cbn [ev_val MsgpackCodecProofs.wfb]; lia|reflexivity]. }
    destruct (m =? 203)%N eqn:E5.
    { assert (Hp : p = 8%N) by lia. rewrite Hp in Hb. change (256 ^ 8)%N with 18446744073709551616%N in Hb.
      apply Henc; [exact I|cbn [ev_val MsgpackCodecProofs.wfb]; lia|reflexivity]. }
    assert (Hp8 : (256 ^ p <= 18446744073709551616)%N).
    { assert (p = 0 \/ p = 1 \/ p = 2 \/ p = 4 \/ p = 8)%N as [-> | [-> | [-> | [-> | ->]]]] by lia; vm_compute; discriminate. }
    destruct (m =? 204)%N eqn:E6; [apply Henc; [exact I|cbn [ev_val MsgpackCodecProofs.wfb]; lia|reflexivity]|].
    destruct (m =? 205)%N eqn:E7; [apply Henc; [exact I|cbn [ev_val MsgpackCodecProofs.wfb]; lia|reflexivity]|].
    destruct (m =? 206)%N eqn:E8; [apply Henc; [exact I|cbn [ev_val MsgpackCodecProofs.wfb]; lia|reflexivity]|].
    destruct (m =? 207)%N eqn:E9; [apply Henc; [exact I|cbn [ev_val MsgpackCodecProofs.wfb]; lia|reflexivity]|].
    assert (Hsig : forall bits x, bits = 8%nat \/ bits = 16%nat \/ bits = 32%nat \/ bits = 64%nat -> (x < 2 ^ N.of_nat bits)%N ->
                   wfb (ev_val (ESInt bits (to_signed bits x))) = true /\ depth (ev_val (ESInt bits (to_signed bits x))) = 0).
    { intros bits x Hbits Hlt. pose proof (to_signed_bounds bits x Hbits Hlt) as Hz. cbn [ev_val].
      destruct (to_signed bits x <? 0)%Z eqn:Ez; cbn [MsgpackCodecProofs.wfb depth]; split; try reflexivity; lia. }
    destruct (m =? 208)%N eqn:E10.
    { assert (Hp : p = 1%N) by lia. rewrite Hp in Hb. change (256 ^ 1)%N with 256%N in Hb.
      destruct (Hsig 8%nat (be field) ltac:(auto) ltac:(change (2 ^ N.of_nat 8)%N with 256%N; lia)) as (W & D). apply Henc; [exact I|exact W|exact D]. }
    destruct (m =? 209)%N eqn:E11.
    { assert (Hp : p = 2%N) by lia. rewrite Hp in Hb. change (256 ^ 2)%N with 65536%N in Hb.
      destruct (Hsig 16%nat (be field) ltac:(auto) ltac:(change (2 ^ N.of_nat 16)%N with 65536%N; lia)) as (W & D). apply Henc; [exact I|exact W|exact D]. }
    destruct (m =? 210)%N eqn:E12.
    { assert (Hp : p = 4%N) by lia. rewrite Hp in Hb. change (256 ^ 4)%N with 4294967296%N in Hb.
      destruct (Hsig 32%nat (be field) ltac:(auto) ltac:(change (2 ^ N.of_nat 32)%N with 4294967296%N; lia)) as (W & D). apply Henc; [exact I|exact W|exact D]. }
    destruct (m =? 211)%N eqn:E13.
    { assert (Hp : p = 8%N) by lia. rewrite Hp in Hb. change (256 ^ 8)%N with 18446744073709551616%N in Hb.
      destruct (Hsig 64%nat (be field) ltac:(auto) ltac:(change (2 ^ N.of_nat 64)%N with 18446744073709551616%N; lia)) as (W & D). apply Henc; [exact I|exact W|exact D]. }
    (* negative fixint *)
    destruct (Hsig 8%nat m ltac:(auto) ltac:(change (2 ^ N.of_nat 8)%N with 256%N; exact Hm)) as (W & D).
    apply Henc; [exact I|exact W|exact D].
  Qed.
End Canon.

(* ---------- pairing up the flat sequence a map is decoded as ---------- *)

Fixpoint pairs (l : list mval) : list (mval * mval) :=
  match l with
  | a :: b :: r => (a, b) :: pairs r
  | _ => []
  end.

Lemma pairs_even : forall n l, length l = 2 * n -> flatten (pairs l) = l /\ length (pairs l) = n.
Proof.
  induction n as [|n IH]; intros l H.
  - destruct l; [split; reflexivity|discriminate].
  - destruct l as [|a [|b r]]; try (cbn [length] in H; lia).
    cbn [length] in H. destruct (IH r ltac:(lia)) as (E1 & E2).
    cbn [pairs flatten flat_map fst snd app length]. fold (flatten (pairs r)). rewrite E1, E2. split; reflexivity.
Qed.

Section Canon2.
  Variable utf8_valid : bytes -> bool.
  Notation wfb := (wfb utf8_valid).
  Notation dec := (dec utf8_valid false).
  Notation dec_seq := (dec_seq utf8_valid false).

  (* [v] is an encodable value whose canonical encoding is what the writer makes of [evs0] *)
  Definition canon_of (evs0 : list ev) (d : nat) (v : mval) : Prop :=
    wfb v = true /\ depth v <= d - 1 /\ enc_evs evs0 = enc_val v.

  Lemma pairs_wf : forall n l, length l = 2 * n -> forallb wfb l = true ->
    forallb (fun kv : mval * mval => let (k, x) := kv in wfb k && wfb x) (pairs l) = true.
  Proof.
    induction n as [|n IH]; intros l H W.
    - destruct l; [reflexivity|discriminate].
    - destruct l as [|a [|b r]]; try (cbn [length] in H; lia). cbn [length] in H. cbn [forallb] in W.
      apply andb_prop in W as (Wa & W). apply andb_prop in W as (Wb & W).
      cbn [pairs forallb]. now rewrite Wa, Wb, (IH r ltac:(lia) W).
  Qed.

  Lemma pairs_depth m : forall n l, length l = 2 * n -> Forall (fun v => depth v <= m) l ->
    fold_right (fun (kv : mval * mval) acc => let (k, x) := kv in Nat.max (Nat.max (depth k) (depth x)) acc) 0 (pairs l) <= m.
  Proof.
    induction n as [|n IH]; intros l H F.
    - destruct l; [cbn; lia|discriminate].
    - destruct l as [|a [|b r]]; try (cbn [length] in H; lia). cbn [length] in H.
      inversion F as [|? ? Ha F1]; subst. inversion F1 as [|? ? Hb F2]; subst.
      cbn [pairs fold_right]. specialize (IH r ltac:(lia) F2). lia.
  Qed.

  Lemma arr_depth m l : Forall (fun v => depth v <= m) l -> fold_right (fun x acc => Nat.max (depth x) acc) 0 l <= m.
  Proof. induction 1 as [|x l Hx _ IH]; cbn [fold_right]; lia. Qed.

  Lemma pow256_le w : (1 <= w <= 4)%nat -> (256 ^ N.of_nat w <= 4294967296)%N.
  Proof. intros H. destruct w as [|[|[|[|[|w]]]]]; try lia; vm_compute; discriminate. Qed.

  Lemma d_str_canon n inp evs0 rest d : d_str utf8_valid n inp = (evs0, DOk rest) -> bytes_ok inp -> (n < 4294967296)%N ->
    (exists v, canon_of evs0 d v) /\ bytes_ok rest.
  Proof.
    unfold d_str. destruct (take_n n inp) as [[s r]|] eqn:Et; [|discriminate]. intros H Hi Hn. inversion H; subst.
    destruct (take_n_bytes _ _ _ _ Et Hi) as (_ & Hr & Hl). split; [|exact Hr].
    destruct (utf8_valid s) eqn:Eu.
    - exists (VStr s). unfold canon_of. cbn [MsgpackCodecProofs.wfb depth]. rewrite Eu. repeat split; lia.
    - exists (VBin s). unfold canon_of. cbn [MsgpackCodecProofs.wfb depth]. repeat split; lia.
  Qed.

  Lemma d_bin_canon n inp evs0 rest d : d_bin n inp = (evs0, DOk rest) -> bytes_ok inp -> (n < 4294967296)%N ->
    (exists v, canon_of evs0 d v) /\ bytes_ok rest.
  Proof.
    unfold d_bin. destruct (take_n n inp) as [[s r]|] eqn:Et; [|discriminate]. intros H Hi Hn. inversion H; subst.
    destruct (take_n_bytes _ _ _ _ Et Hi) as (_ & Hr & Hl). split; [|exact Hr].
    exists (VBin s). unfold canon_of. cbn [MsgpackCodecProofs.wfb depth]. repeat split; lia.
  Qed.

  Lemma d_len_bound w tl (k : N -> bytes -> list ev * dres) evs0 rest : (1 <= w <= 4)%nat -> bytes_ok tl ->
    d_len w tl k = (evs0, DOk rest) ->
    exists len r, (len < 4294967296)%N /\ bytes_ok r /\ k len r = (evs0, DOk rest).
  Proof.
    intros Hw Hi. unfold d_len. destruct (take_n (N.of_nat w) tl) as [[field r]|] eqn:Et; [|discriminate].
    destruct (take_n_bytes _ _ _ _ Et Hi) as (Hf & Hr & Hl). intros H. exists (be field), r.
    pose proof (be_bound field Hf) as Hb. rewrite Hl in Hb. pose proof (pow256_le w Hw). repeat split; [lia|exact Hr|exact H].
  Qed.

  Lemma leaf_canon m tl d evs0 rest : leaf_dec utf8_valid false m tl d = (evs0, DOk rest) -> bytes_ok (m :: tl) ->
    (exists v, canon_of evs0 d v) /\ bytes_ok rest.
  Proof.
    intros H Hi. inversion Hi as [|? ? Hm Htl]; subst.
    pose proof (classify_ok m Hm) as Hok. unfold mk_ok in Hok. unfold leaf_dec in H.
    destruct (classify m) as [p|n|w|w|n|w|n|w|n|w| ] eqn:Ec; try discriminate.
    - destruct (take_n p tl) as [[field r]|] eqn:Et; [|discriminate]. inversion H; subst.
      destruct (take_n_bytes _ _ _ _ Et Htl) as (Hf & Hr & Hl). split; [|exact Hr].
      destruct (scalar_canon utf8_valid m p field Hm Ec Hf Hl) as (W & D & E).
      exists (ev_val (scalar_ev m field)). unfold canon_of. repeat split; [exact W|lia|].
      cbn [enc_evs flat_map]. rewrite app_nil_r. exact E.
    - apply (d_str_canon _ _ _ _ _ H Htl). lia.
    - destruct (d_len_bound w tl _ _ _ ltac:(lia) Htl H) as (len & r & Hlen & Hr & Hk). exact (d_str_canon _ _ _ _ _ Hk Hr Hlen).
    - destruct (d_len_bound w tl _ _ _ ltac:(lia) Htl H) as (len & r & Hlen & Hr & Hk). exact (d_bin_canon _ _ _ _ _ Hk Hr Hlen).
    - unfold d_ext in H. destruct (d - 1 =? 0); discriminate.
    - destruct (d_len_bound w tl _ _ _ ltac:(lia) Htl H) as (len & r & Hlen & Hr & Hk).
      unfold d_ext in Hk. destruct (d - 1 =? 0); discriminate.
  Qed.

  Lemma coll_hdr_bytes m tl ism len rest : coll_hdr m tl = Some (ism, len, rest) -> bytes_ok (m :: tl) ->
    (len < 4294967296)%N /\ bytes_ok rest.
  Proof.
    intros H Hi. inversion Hi as [|? ? Hm Htl]; subst.
    pose proof (classify_ok m Hm) as Hok. unfold mk_ok in Hok. unfold coll_hdr in H.
    destruct (classify m) as [p|n|w|w|n|w|n|w|n|w| ] eqn:Ec; try discriminate.
    - inversion H; subst. split; [lia|exact Htl].
    - destruct (take_n (N.of_nat w) tl) as [[field r]|] eqn:Et; [|discriminate]. inversion H; subst.
      destruct (take_n_bytes _ _ _ _ Et Htl) as (Hf & Hr & Hl). pose proof (be_bound field Hf) as Hb. rewrite Hl in Hb.
      pose proof (pow256_le w ltac:(lia)). split; [lia|exact Hr].
    - inversion H; subst. split; [lia|exact Htl].
    - destruct (take_n (N.of_nat w) tl) as [[field r]|] eqn:Et; [|discriminate]. inversion H; subst.
      destruct (take_n_bytes _ _ _ _ Et Htl) as (Hf & Hr & Hl). pose proof (be_bound field Hf) as Hb. rewrite Hl in Hb.
      pose proof (pow256_le w ltac:(lia)). split; [lia|exact Hr].
  Qed.

  Definition Cd (f : nat) : Prop := forall inp d evs0 rest, dec f inp d = (evs0, DOk rest) -> bytes_ok inp ->
    (exists v, canon_of evs0 d v) /\ bytes_ok rest.
  Definition Cs (f : nat) : Prop := forall inp c d evs0 rest, dec_seq f inp c d = (evs0, DOk rest) -> bytes_ok inp ->
    (exists vs, lenN vs = c /\ forallb wfb vs = true /\ Forall (fun v => depth v <= d - 1) vs /\ enc_evs evs0 = flat_map enc_val vs) /\
    bytes_ok rest.

  Lemma canon_all : forall f, Cd f /\ Cs f.
  Proof.
    induction f as [|f (IHd & IHs)]; [split; unfold Cd, Cs; intros; discriminate|].
    split.
    - intros inp d evs0 rest H Hi. destruct inp as [|m tl]; [discriminate|].
      rewrite dec_unfold in H. destruct (is_coll (classify m)); [|exact (leaf_canon _ _ _ _ _ H Hi)].
      destruct (coll_hdr m tl) as [[[ism len] r]|] eqn:Eh; [|discriminate].
      destruct (coll_hdr_bytes _ _ _ _ _ Eh Hi) as (Hlen & Hr).
      destruct (d - 1 =? 0) eqn:Ed; [discriminate|].
      unfold coll_result in H.
      destruct (dec_seq f r (coll_count ism len) (d - 1)) as [evs' [rest'|e]] eqn:Es; [|discriminate].
      inversion H; subst.
      destruct (IHs _ _ _ _ _ Es Hr) as ((vs & Hc & W & D & E) & Hrest). split; [|exact Hrest].
      destruct ism; cbn [coll_count coll_open coll_close] in *.
      + (* a map: 2 * len values, paired up *)
        assert (Hl2 : length vs = 2 * N.to_nat len) by (unfold lenN in Hc; lia).
        destruct (pairs_even _ _ Hl2) as (Ef & El).
        exists (VMap (pairs vs)). unfold canon_of. cbn [MsgpackCodecProofs.wfb depth]. split; [|split].
        * apply andb_true_intro. split; [unfold lenN; lia|exact (pairs_wf _ _ Hl2 W)].
        * pose proof (pairs_depth (d - 1 - 1) _ _ Hl2 D). lia.
        * rewrite enc_val_map, Ef. replace (lenN (pairs vs)) with len by (unfold lenN; lia).
          cbn [enc_evs flat_map enc_ev]. fold (enc_evs (evs' ++ [EMapEnd])). rewrite enc_evs_app, E.
          cbn [enc_evs flat_map enc_ev app]. now rewrite !app_nil_r.
      + exists (VArr vs). unfold canon_of. cbn [MsgpackCodecProofs.wfb depth]. split; [|split].
        * apply andb_true_intro. split; [lia|exact W].
        * pose proof (arr_depth (d - 1 - 1) _ D). lia.
        * rewrite enc_val_arr, Hc. cbn [enc_evs flat_map enc_ev]. fold (enc_evs (evs' ++ [ESeqEnd])). rewrite enc_evs_app, E.
          cbn [enc_evs flat_map enc_ev app]. now rewrite !app_nil_r.
    - intros inp c d evs0 rest H Hi. rewrite dec_seq_unfold in H.
      destruct (c =? 0)%N eqn:Ec.
      + inversion H; subst. split; [|exact Hi]. exists []. repeat split; [unfold lenN; cbn; lia|constructor].
      + destruct (dec f inp d) as [evs1 [rest1|e]] eqn:E1; [|discriminate].
        destruct (dec_seq f rest1 (c - 1)%N d) as [evs2 [rest2|e]] eqn:E2; [|discriminate]. inversion H; subst.
        destruct (IHd _ _ _ _ E1 Hi) as ((v & Wv & Dv & Ev) & Hr1).
        destruct (IHs _ _ _ _ _ E2 Hr1) as ((vs & Hc & W & D & E) & Hr2). split; [|exact Hr2].
        exists (v :: vs). cbn [forallb flat_map]. rewrite Wv, W, enc_evs_app, Ev, E.
        repeat split; [unfold lenN in *; cbn [length]; lia|constructor; assumption].
  Qed.

  (* whatever one decode reads is, for the writer, an encodable value *)
  Theorem decoded_is_encodable inp evs0 rest : decode utf8_valid false inp DEPTH_LIMIT = (evs0, DOk rest) -> bytes_ok inp ->
    (exists v, encodable utf8_valid v /\ enc_evs evs0 = enc_val v) /\ bytes_ok rest.
  Proof.
    unfold decode. intros H Hi. destruct (proj1 (canon_all _) _ _ _ _ H Hi) as ((v & W & D & E) & Hr).
    split; [|exact Hr]. exists v. split; [|exact E]. split; [exact W|]. unfold DEPTH_LIMIT in *. lia.
  Qed.

  Lemma reader_loop_canon : forall f inp docs, reader_loop utf8_valid f inp = (docs, MDone) -> bytes_ok inp ->
    exists vs, Forall (encodable utf8_valid) vs /\ flat_map enc_evs docs = flat_map enc_val vs.
  Proof.
    induction f as [|f IH]; intros inp docs H Hi; [discriminate|]. cbn [reader_loop] in H.
    destruct inp as [|b r]; [inversion H; subst; exists []; split; [constructor|reflexivity]|].
    destruct (decode utf8_valid false (b :: r) DEPTH_LIMIT) as [evs0 [rest|e]] eqn:Ed; [|discriminate].
    destruct (reader_loop utf8_valid f rest) as [docs' fin] eqn:El. inversion H; subst.
    destruct (decoded_is_encodable _ _ _ Ed Hi) as ((v & Hv & Ev) & Hr).
    destruct (IH _ _ El Hr) as (vs & F & E). exists (v :: vs). split; [constructor; assumption|].
    cbn [flat_map]. now rewrite Ev, E.
  Qed.

  (* MessagePack -> MessagePack is idempotent, for every byte string: what the
     reader loop writes for a stream it translates to the end is reproduced byte
     for byte by both loops *)
  Theorem msgpack_to_msgpack_idempotent inp : bytes_ok inp -> mm_ok (transcode_reader utf8_valid inp) = true ->
    let o := mm_output (transcode_reader utf8_valid inp) in
    mm_ok (transcode_reader utf8_valid o) = true /\ mm_output (transcode_reader utf8_valid o) = o /\
    mm_ok (transcode_slice utf8_valid o) = true /\ mm_output (transcode_slice utf8_valid o) = o.
  Proof.
    intros Hi Hok. cbv zeta.
    destruct (transcode_reader utf8_valid inp) as [docs fin] eqn:Er.
    unfold mm_ok in Hok. cbn [snd] in Hok. destruct fin; try discriminate.
    unfold transcode_reader in Er. destruct (reader_loop_canon _ _ _ Er Hi) as (vs & F & E).
    assert (Eo : mm_output (docs, MDone) = flat_map enc_val vs) by (unfold mm_output; cbn [fst snd]; now rewrite app_nil_r).
    rewrite Eo. destruct (reader_identity utf8_valid vs F) as (_ & R1 & R2). destruct (slice_identity utf8_valid vs F) as (_ & S1 & S2).
    repeat split; assumption.
  Qed.
End Canon2.

(* non-vacuity: an array holding 5 spelled as uint16 and "a" spelled as str8 is
   rewritten in the shortest forms, and that output is a fixed point *)
Example msgpack_idempotent_example :
  let inp := [146; 205; 0; 5; 217; 1; 97]%N in
  bytes_ok inp /\ mm_ok (transcode_reader (fun _ => true) inp) = true /\
  mm_output (transcode_reader (fun _ => true) inp) = [146; 5; 161; 97]%N.
Proof. split; [repeat constructor|vm_compute; split; reflexivity]. Qed.
