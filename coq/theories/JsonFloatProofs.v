(* JsonFloatProofs.v — the reader model reads back every float the writer model
   spells (JsonFloatModel.v): for every binary64 for which the shortest-digits
   search succeeds ([ryu_ok]), the number grammar of JsonModel.v, run on ryu's
   text followed by anything that can follow a value, yields exactly that
   binary64 — sign, exponent and all 52 fraction bits — and leaves what followed.
   With this the premise on the float spelling in JsonWriteProofs.v,
   JsonMsgpackProofs.v, JsonDepthProofs.v is discharged for the concrete model
   of ryu's output. *)
From XtModel Require Import Base Utf8 Utf8Proofs MsgpackModel JsonModel JsonProofs JsonUtf8Proofs JsonWriteModel JsonWriteProofs JsonFloatModel.
Require Import ZifyBool ZifyNat ZifyN.
Ltac Zify.zify_post_hook ::= Z.div_mod_to_equations.

Lemma digs_text_asc ds : digs_text ds = asc ds.
Proof. reflexivity. Qed.

Lemma all_digits_Forall ds : all_digits ds = true -> Forall (fun d => (d < 10)%N) ds.
Proof.
  unfold all_digits. rewrite forallb_forall. intros H. apply Forall_forall. intros x Hx.
  specialize (H x Hx). lia.
Qed.

(* what may follow a run of digits *)
Definition dig_end (tail : bytes) : Prop :=
  match tail with [] => True | c :: _ => is_digit c = false end.

Lemma take_digits_asc' ds tail : Forall (fun d => (d < 10)%N) ds -> dig_end tail ->
  take_digits (asc ds ++ tail) = (ds, tail).
Proof.
  intros F Ht. induction F as [|d ds Hd F IH]; cbn [asc map app].
  - destruct tail as [|c r]; [reflexivity|]. cbn [take_digits]. cbn in Ht. now rewrite Ht.
  - cbn [take_digits]. assert (Hdig : is_digit (48 + d) = true) by (unfold is_digit; lia). rewrite Hdig.
    fold (asc ds). rewrite IH. f_equal. f_equal. lia.
Qed.

Lemma num_end_dig_end tail : num_end tail -> dig_end tail.
Proof. destruct tail as [|c r]; [auto|]. intros (H & _). exact H. Qed.

(* ---------- the exponent part ---------- *)

Lemma parse_exp_text pos ints fracs e tail : num_end tail ->
  parse_exp pos ints fracs (exp_text e ++ tail) =
    float_ev pos (ints ++ fracs) (e - Z.of_nat (length fracs))%Z tail.
Proof.
  intros Ht. unfold exp_text.
  destruct (e <? 0)%Z eqn:Eneg.
  - destruct (to_dec_spec (Z.to_N (- e))) as (ds & E & V & F & NE & _). rewrite E.
    destruct ds as [|d ds']; [congruence|]. inversion F as [|? ? Hd F']; subst.
    unfold parse_exp. cbn [app exp_sign]. change (45 =? 43)%N with false. change (45 =? 45)%N with true.
    cbn [fst snd]. unfold exp_digits. cbn [asc map app].
    assert (Hdig : is_digit (48 + d) = true) by (unfold is_digit; lia). rewrite Hdig.
    change ((48 + d)%N :: map (fun d0 : N => (48 + d0)%N) ds' ++ tail) with (asc (d :: ds') ++ tail).
    rewrite (take_digits_asc' (d :: ds') tail F (num_end_dig_end _ Ht)).
    rewrite V. f_equal. lia.
  - destruct (to_dec_spec (Z.to_N e)) as (ds & E & V & F & NE & _). rewrite E.
    destruct ds as [|d ds']; [congruence|]. inversion F as [|? ? Hd F']; subst.
    unfold parse_exp. cbn [asc map app exp_sign].
    destruct (48 + d =? 43)%N eqn:E43; [lia|]. destruct (48 + d =? 45)%N eqn:E45; [lia|].
    cbn [fst snd]. unfold exp_digits.
    assert (Hdig : is_digit (48 + d) = true) by (unfold is_digit; lia). rewrite Hdig.
    change ((48 + d)%N :: map (fun d0 : N => (48 + d0)%N) ds' ++ tail) with (asc (d :: ds') ++ tail).
    rewrite (take_digits_asc' (d :: ds') tail F (num_end_dig_end _ Ht)).
    rewrite V. f_equal. lia.
Qed.

(* ---------- after the integer digits ---------- *)

Definition after_text (sh : fshape) : bytes :=
  (match fs_fracs sh with [] => [] | _ :: _ => 46%N :: digs_text (fs_fracs sh) end)
  ++ (match fs_exp sh with None => [] | Some e => 101%N :: exp_text e end).

Lemma after_int_shape pos sh tail :
  all_digits (fs_fracs sh) = true ->
  (match fs_fracs sh, fs_exp sh with [], None => false | _, _ => true end) = true ->
  num_end tail ->
  after_int pos (fs_ints sh) (after_text sh ++ tail) =
    float_ev pos (fs_ints sh ++ fs_fracs sh) (shape_E sh) tail.
Proof.
  destruct sh as [ints fracs ex]. unfold after_text, shape_E. cbn [fs_ints fs_fracs fs_exp].
  intros Hf Hne Ht. apply all_digits_Forall in Hf.
  destruct fracs as [|f0 fr].
  - destruct ex as [e|]; [|discriminate]. cbn [app after_int length].
    change (101 =? 46)%N with false. change (is_e 101) with true. cbv iota.
    rewrite parse_exp_text by exact Ht. reflexivity.
  - cbn [app after_int]. change (46 =? 46)%N with true. cbv iota.
    unfold frac_part. rewrite digs_text_asc.
    destruct ex as [e|].
    + rewrite <- app_assoc. cbn [app].
      rewrite (take_digits_asc' (f0 :: fr) (101%N :: exp_text e ++ tail) Hf) by reflexivity.
      change (is_e 101) with true. cbv iota.
      rewrite parse_exp_text by exact Ht. reflexivity.
    + rewrite app_nil_r.
      rewrite (take_digits_asc' (f0 :: fr) tail Hf (num_end_dig_end _ Ht)).
      destruct tail as [|c r].
      * f_equal; try lia.
      * destruct Ht as (_ & _ & He). rewrite He. f_equal; try lia.
Qed.

Lemma after_text_head sh :
  (match fs_fracs sh, fs_exp sh with [], None => false | _, _ => true end) = true ->
  exists c r, after_text sh = c :: r /\ is_digit c = false.
Proof.
  destruct sh as [ints fracs ex]. unfold after_text. cbn [fs_fracs fs_exp]. intros H.
  destruct fracs as [|f0 fr].
  - destruct ex as [e|]; [|discriminate]. eexists _, _. split; [reflexivity|reflexivity].
  - eexists _, _. split; [reflexivity|reflexivity].
Qed.

(* ---------- the whole literal ---------- *)

Lemma shape_text_split sh : shape_text sh = digs_text (fs_ints sh) ++ after_text sh.
Proof. reflexivity. Qed.

Lemma parse_number_shape pos sh tail : shape_wf sh = true -> num_end tail ->
  parse_number pos (shape_text sh ++ tail) =
    float_ev pos (fs_ints sh ++ fs_fracs sh) (shape_E sh) tail.
Proof.
  intros Hwf Ht. unfold shape_wf in Hwf.
  apply andb_prop in Hwf as (Hwf & Hne). apply andb_prop in Hwf as (Hwf & Hhead).
  apply andb_prop in Hwf as (Hi & Hf).
  rewrite shape_text_split, <- app_assoc, digs_text_asc.
  destruct (after_text_head sh Hne) as (c0 & r0 & Eat & Hc0).
  pose proof (after_int_shape pos sh tail Hf Hne Ht) as HA.
  apply all_digits_Forall in Hi.
  destruct (fs_ints sh) as [|d ds] eqn:Ei; [discriminate|].
  inversion Hi as [|? ? Hd Hds]; subst.
  destruct (d =? 0)%N eqn:Ed.
  - (* a single zero *)
    destruct ds as [|? ?]; [|discriminate].
    assert (d = 0%N) by lia. subst d. cbn [asc map app].
    unfold parse_number. change (48 + 0 =? 48)%N with true. cbv iota.
    rewrite Eat in *. cbn [app]. rewrite Hc0. exact HA.
  - assert (Hdig : is_digit (48 + d) = true) by (unfold is_digit; lia).
    assert (Hdg : dig_end (after_text sh ++ tail)) by (rewrite Eat; cbn [app dig_end]; exact Hc0).
    pose proof (take_digits_asc' (d :: ds) (after_text sh ++ tail) Hi Hdg) as Htd.
    cbn [asc map app] in *. unfold parse_number.
    destruct (48 + d =? 48)%N eqn:E0; [lia|]. rewrite Hdig.
    fold (asc ds) in *. rewrite Htd. exact HA.
Qed.

Lemma shape_text_head sh : shape_wf sh = true ->
  exists c r, shape_text sh = c :: r /\ is_digit c = true.
Proof.
  intros Hwf. unfold shape_wf in Hwf.
  apply andb_prop in Hwf as (Hwf & _). apply andb_prop in Hwf as (Hwf & Hhead).
  apply andb_prop in Hwf as (Hi & _). apply all_digits_Forall in Hi.
  rewrite shape_text_split. destruct (fs_ints sh) as [|d ds]; [discriminate|].
  inversion Hi; subst. cbn [digs_text map app]. eexists _, _. split; [reflexivity|]. unfold is_digit. lia.
Qed.

(* a literal that passed the model's read-back test is read back *)
Lemma shape_reads_sound a sh pos tail : shape_reads a sh = true -> num_end tail ->
  parse_number pos (shape_text sh ++ tail) = ([EF64 (if pos then a else (sign_bit + a)%N)], JOk tail).
Proof.
  unfold shape_reads. intros H Ht. apply andb_prop in H as (Hwf & H).
  rewrite parse_number_shape by assumption. unfold float_ev. fold (shape_D sh).
  destruct (f64_of_decimal (shape_D sh) (shape_E sh)) as [b|]; [|discriminate].
  assert (b = a) by lia. now subst b.
Qed.

(* ---------- the search only returns literals that read back ---------- *)

Lemma try_k_sound a k c : try_k a k = Some c -> shape_reads a (ryu_shape c k) = true.
Proof.
  unfold try_k. destruct (scale10 a k) as [n d].
  set (c0 := (n / d)%N).
  destruct ((1 <=? c0)%N && shape_reads a (ryu_shape c0 k)) eqn:Elo;
    destruct (shape_reads a (ryu_shape (c0 + 1) k)) eqn:Ehi; intros H.
  - apply andb_prop in Elo as (_ & Elo).
    destruct (2 * n <? (2 * c0 + 1) * d)%N; [inversion H; subst; exact Elo|].
    destruct (2 * n =? (2 * c0 + 1) * d)%N; [|inversion H; subst; exact Ehi].
    destruct (N.even c0); inversion H; subst; assumption.
  - apply andb_prop in Elo as (_ & Elo). inversion H; subst; exact Elo.
  - inversion H; subst; exact Ehi.
  - discriminate.
Qed.

Lemma ryu_ascend_sound : forall steps a k best c k',
  (forall c0 k0, best = Some (c0, k0) -> shape_reads a (ryu_shape c0 k0) = true) ->
  ryu_ascend steps a k best = Some (c, k') ->
  shape_reads a (ryu_shape c k') = true.
Proof.
  induction steps as [|s IH]; intros a k best c k' Hb H; cbn [ryu_ascend] in H; [exact (Hb _ _ H)|].
  destruct (try_k a k) as [c1|] eqn:E; [|exact (Hb _ _ H)].
  apply (IH a (k + 1)%Z (Some (c1, k)) c k'); [|exact H].
  intros c0 k0 H0. inversion H0; subst. exact (try_k_sound _ _ _ E).
Qed.

Lemma zero_shape_reads : shape_reads 0 zero_shape = true.
Proof. reflexivity. Qed.

Lemma ryu_abs_sound a sh : ryu_abs a = Some sh -> shape_reads a sh = true.
Proof.
  unfold ryu_abs. destruct (a =? 0)%N eqn:E0.
  - intros H. inversion H; subst. assert (a = 0%N) by lia. subst a. exact zero_shape_reads.
  - unfold ryu_d2d. destruct (ryu_ascend ryu_steps a (ryu_top a - 21)%Z None) as [[c k]|] eqn:E; [|discriminate].
    intros H. inversion H; subst. apply (ryu_ascend_sound ryu_steps a (ryu_top a - 21)%Z None c k); [intros c0 k0 H0; discriminate H0|exact E].
Qed.

(* ---------- serde_json's reader reads ryu's text back to the same bits ---------- *)

Theorem ryu_reads : forall b, ryu_ok b = true -> forall f depth tail, val_end tail ->
  parse_value (S f) depth (ryu_f64 b ++ tail) = ([EF64 b], JOk tail).
Proof.
  intros b Hok f depth tail Ht. unfold ryu_ok in Hok. apply andb_prop in Hok as (Hfin & Hs).
  unfold ryu_f64. destruct (ryu_abs (f_abs b)) as [sh|] eqn:Ea; [|discriminate].
  pose proof (ryu_abs_sound _ _ Ea) as Hr. apply val_end_num in Ht.
  unfold f_abs in *. destruct (f_neg b) eqn:En.
  - cbn [app]. rewrite pv_minus.
    rewrite (shape_reads_sound _ _ false tail Hr Ht). unfold f_neg in En.
    do 2 f_equal. f_equal. lia.
  - cbn [app]. unfold shape_reads in Hr. apply andb_prop in Hr as (Hwf & Hr').
    destruct (shape_text_head sh Hwf) as (c & r & Et & Hc).
    rewrite Et. cbn [app]. rewrite pv_digit by exact Hc.
    change (c :: r ++ tail) with ((c :: r) ++ tail). rewrite <- Et.
    assert (Hr2 : shape_reads b sh = true) by (unfold shape_reads; now rewrite Hwf, Hr').
    exact (shape_reads_sound _ _ true tail Hr2 Ht).
Qed.

Theorem ryu_head : forall b, ryu_ok b = true ->
  exists c r, ryu_f64 b = c :: r /\ is_ws c = false /\ (c =? 93)%N = false /\ (c =? 125)%N = false /\ (c =? 44)%N = false.
Proof.
  intros b Hok. unfold ryu_ok in Hok. apply andb_prop in Hok as (_ & Hs).
  unfold ryu_f64. destruct (ryu_abs (f_abs b)) as [sh|] eqn:Ea; [|discriminate].
  destruct (f_neg b).
  - eexists _, _. split; [reflexivity|]. repeat split; reflexivity.
  - pose proof (ryu_abs_sound _ _ Ea) as Hr. unfold shape_reads in Hr. apply andb_prop in Hr as (Hwf & _).
    destruct (shape_text_head sh Hwf) as (c & r & Et & Hc). exists c, r. cbn [app]. split; [exact Et|].
    unfold is_digit in Hc. unfold is_ws. repeat split; lia.
Qed.

(* no line break inside a number: one line per document holds with floats too *)
Lemma asc_no_newline ds : Forall (fun d => (d < 10)%N) ds -> ~ In 10%N (asc ds).
Proof.
  intros F H. unfold asc in H. apply in_map_iff in H as (d & E & Hin).
  rewrite Forall_forall in F. specialize (F d Hin). lia.
Qed.

Lemma to_dec_no_newline n : ~ In 10%N (to_dec n).
Proof. destruct (to_dec_spec n) as (ds & E & _ & F & _). rewrite E. now apply asc_no_newline. Qed.

Lemma shape_text_no_newline sh : shape_wf sh = true -> ~ In 10%N (shape_text sh).
Proof.
  intros Hwf. unfold shape_wf in Hwf.
  apply andb_prop in Hwf as (Hwf & _). apply andb_prop in Hwf as (Hwf & _).
  apply andb_prop in Hwf as (Hi & Hf). apply all_digits_Forall in Hi. apply all_digits_Forall in Hf.
  unfold shape_text. rewrite !in_app_iff, !digs_text_asc. intros [H|[H|H]].
  - exact (asc_no_newline _ Hi H).
  - destruct (fs_fracs sh) as [|f0 fr]; [exact H|]. destruct H as [H|H]; [discriminate|].
    exact (asc_no_newline _ Hf H).
  - destruct (fs_exp sh) as [e|]; [|exact H]. destruct H as [H|H]; [discriminate|].
    unfold exp_text in H. destruct (e <? 0)%Z.
    + destruct H as [H|H]; [discriminate|]. exact (to_dec_no_newline _ H).
    + exact (to_dec_no_newline _ H).
Qed.

Theorem json_f64_no_newline b : ~ In 10%N (json_f64 b).
Proof.
  unfold json_f64. destruct (f_finite b).
  - unfold ryu_f64. rewrite in_app_iff. intros [H|H].
    + destruct (f_neg b); [destruct H as [H|H]; [discriminate|exact H]|exact H].
    + destruct (ryu_abs (f_abs b)) as [sh|] eqn:Ea; [|exact H].
      pose proof (ryu_abs_sound _ _ Ea) as Hr. unfold shape_reads in Hr. apply andb_prop in Hr as (Hwf & _).
      exact (shape_text_no_newline _ Hwf H).
  - cbn. intros [H|[H|[H|[H|H]]]]; try discriminate; exact H.
Qed.

Lemma json_f64_finite b : ryu_ok b = true -> json_f64 b = ryu_f64 b.
Proof. unfold ryu_ok, json_f64. intros H. apply andb_prop in H as (-> & _). reflexivity. Qed.

(* the same two facts for serde_json's serialize_f64 *)
Theorem json_f64_reads : forall b, ryu_ok b = true -> forall f depth tail, val_end tail ->
  parse_value (S f) depth (json_f64 b ++ tail) = ([EF64 b], JOk tail).
Proof. intros b H. rewrite (json_f64_finite b H). exact (ryu_reads b H). Qed.

Theorem json_f64_head : forall b, ryu_ok b = true ->
  exists c r, json_f64 b = c :: r /\ is_ws c = false /\ (c =? 93)%N = false /\ (c =? 125)%N = false /\ (c =? 44)%N = false.
Proof. intros b H. rewrite (json_f64_finite b H). exact (ryu_head b H). Qed.

(* ---------- non-vacuity: the search succeeds on concrete values of every layout ---------- *)

(* 0.1, 1.0, 1e16, 1e15 (1000000000000000.0), 1e-5 (0.00001), 1e-7, 5e-324,
   1.7976931348623157e308, -1234.5, 9.999999999999999e22 (spelled 1e23) *)
Example ryu_ok_examples :
  forallb ryu_ok [4591870180066957722; 4607182418800017408; 4846369599423283200; 4831355200913801216;
                  4532020583610935537; 4502148214488346440; 1; 9218868437227405311;
                  (sign_bit + 4653144467747373056); 4921056587992461136]%N = true.
Proof. vm_compute. reflexivity. Qed.

(* a document holding floats of several layouts satisfies the hypotheses and is read back *)
Example json_read_back_with_floats :
  let v := JObj [([97], JArr [JFloat 4591870180066957722; JFloat 4921056587992461136; JFloat 1; JUInt 7;
                              JFloat (sign_bit + 4653144467747373056)]); ([98], JFloat 4532020583610935537)]%N in
  jwf ryu_ok v = true /\ jdepth v < JSON_DEPTH /\
  json_value (jwrite json_f64 v ++ [10%N]) = (jevs v, JOk [10%N]).
Proof. vm_compute. repeat split; lia. Qed.
