(* MsgpackTrialProofs.v — the MessagePack detection trial (an IgnoredAny decode
   behind a collection marker) accepts whatever the transcoding decode accepts:
   the two differ only in what they do with ext values, which the transcoding
   visitor refuses.  So a MessagePack stream that translates and opens with an
   array or a map is detected as MessagePack. *)
From XtModel Require Import Base InputModel FormatsModel DetectModel MsgpackModel MsgpackProofs MsgpackDecProofs SelfDetectProofs.

Lemma leaf_dec_ignore utf8 m tl depth evs rest :
  leaf_dec utf8 false m tl depth = (evs, DOk rest) -> leaf_dec utf8 true m tl depth = (evs, DOk rest).
Proof.
  unfold leaf_dec. destruct (classify m) as [p|n|w|w|n|w|n|w|n|w| ]; try (intros H; exact H).
  - unfold d_ext. destruct (depth - 1 =? 0); discriminate.
  - unfold d_len. destruct (take_n (N.of_nat w) tl) as [[field r]|]; [|discriminate].
    unfold d_ext. destruct (depth - 1 =? 0); discriminate.
Qed.

Lemma dec_ignore_accepts utf8 : forall f,
  (forall inp depth evs rest, dec utf8 false f inp depth = (evs, DOk rest) -> dec utf8 true f inp depth = (evs, DOk rest)) /\
  (forall inp count depth evs rest, dec_seq utf8 false f inp count depth = (evs, DOk rest) ->
                                    dec_seq utf8 true f inp count depth = (evs, DOk rest)).
Proof.
  induction f as [|f (IHd & IHs)]; [split; intros; discriminate|].
  split.
  - intros inp depth evs rest H. destruct inp as [|m tl]; [discriminate|].
    rewrite dec_unfold in *. destruct (is_coll (classify m)); [|exact (leaf_dec_ignore _ _ _ _ _ _ H)].
    destruct (coll_hdr m tl) as [[[ism len] r]|]; [|discriminate].
    destruct (depth - 1 =? 0); [discriminate|].
    unfold coll_result in *.
    destruct (dec_seq utf8 false f r (coll_count ism len) (depth - 1)) as [evs0 [rest'|e]] eqn:E; [|discriminate].
    rewrite (IHs _ _ _ _ _ E). exact H.
  - intros inp count depth evs rest H. rewrite dec_seq_unfold in *.
    destruct (count =? 0)%N; [exact H|].
    destruct (dec utf8 false f inp depth) as [evs0 [rest0|e]] eqn:E; [|discriminate].
    rewrite (IHd _ _ _ _ E).
    destruct (dec_seq utf8 false f rest0 (count - 1)%N depth) as [evs' [rest'|e]] eqn:E2; [|discriminate].
    rewrite (IHs _ _ _ _ _ E2). exact H.
Qed.

(* a stream that the reader loop translates to the end, opening with an array or
   a map, is accepted by the trial *)
Theorem translatable_msgpack_accepted utf8 inp d docs m tl :
  transcode_reader utf8 inp = (d :: docs, MDone) -> inp = m :: tl -> is_collection_marker m = true ->
  msgpack_matches utf8 inp = true.
Proof.
  intros H -> Hm. unfold transcode_reader in H. cbn [reader_loop] in H.
  destruct (decode utf8 false (m :: tl) DEPTH_LIMIT) as [evs [rest|e]] eqn:E; [|discriminate].
  unfold msgpack_matches. rewrite Hm. unfold decode in *.
  rewrite (proj1 (dec_ignore_accepts utf8 _) _ _ _ _ E). reflexivity.
Qed.

Definition msgpack_slice_trial (utf8 : bytes -> bool) : trial :=
  {| t_ops := [OPrefix 0];
     t_verdict := fun obs => match obs with [_; ObsPrefix (Ok p)] => Ok (msgpack_matches utf8 p) | _ => Ok false end |}.

Lemma msgpack_slice_trial_verdict utf8 d : slice_verdict d (msgpack_slice_trial utf8) = Ok (msgpack_matches utf8 d).
Proof. reflexivity. Qed.

Theorem translatable_msgpack_detected (sched : nat -> nat) (cutoff : nat) (toml_parses utf8 : bytes -> bool) (tj ty : trial)
        inp d docs m tl :
  transcode_reader utf8 inp = (d :: docs, MDone) -> inp = m :: tl -> is_collection_marker m = true ->
  snd (detect sched cutoff toml_parses (msgpack_slice_trial utf8) tj ty (start (HSlice inp))) = Ok (Some Msgpack).
Proof.
  intros H E Hm. rewrite detect_slice_order. unfold cascade.
  rewrite msgpack_slice_trial_verdict.
  rewrite (translatable_msgpack_accepted utf8 inp d docs m tl H E Hm). reflexivity.
Qed.

(* xt recognises its own MessagePack output: the encoding of an array or a map,
   whatever follows it, is detected as MessagePack - with the trial concrete, no premise *)
From XtModel Require Import MsgpackCodecProofs.

Theorem own_msgpack_output_detected (sched : nat -> nat) (cutoff : nat) (toml_parses utf8 : bytes -> bool) (tj ty : trial)
        (v : mval) (tail : bytes) :
  encodable utf8 v -> MsgpackCodecProofs.is_collection v = true ->
  snd (detect sched cutoff toml_parses (msgpack_slice_trial utf8) tj ty (start (HSlice (enc_val v ++ tail)))) = Ok (Some Msgpack).
Proof.
  intros He Hc. rewrite detect_slice_order. unfold cascade.
  rewrite msgpack_slice_trial_verdict, (own_output_matches utf8 v tail He Hc). reflexivity.
Qed.
