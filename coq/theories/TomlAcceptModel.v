(* TomlAcceptModel.v — which documents a TOML output accepts (toml.rs:75-118):
   the document is first collected into a toml::Value (the toml crate's
   Deserialize: no nulls, no byte arrays as values, integers within i64, string
   keys, no key twice in one table), then xt requires its root to be a table.  The first
   offence met in document order is the one reported.

   The values are those of the MessagePack reader model ([mval]); a signed
   integer event carries any i64, so [VNeg] stands for every integer reported
   through visit_i64.  toml's private marker key for date-times is not
   modelled (the correspondence generator never produces it).
   Definitions only (and the unfolding lemma of the one local fixpoint). *)
From XtModel Require Import Base Utf8 MsgpackModel MsgpackCodecProofs.

Inductive trefusal := TRNull | TRBigInt | TRBytes | TRKey | TRDupKey | TRNotTable.

Definition first_ref {A} (f : A -> option trefusal) : list A -> option trefusal :=
  fix go (l : list A) : option trefusal :=
    match l with
    | [] => None
    | x :: r => match f x with Some e => Some e | None => go r end
    end.

Fixpoint mem_bytes (s : bytes) (l : list bytes) : bool :=
  match l with
  | [] => false
  | t :: r => if list_eq_dec N.eq_dec s t then true else mem_bytes s r
  end.

Definition no_keys (seen : list bytes) : bool := match seen with [] => true | _ => false end.

(* The string a key stands for.  The first key of a table is read by toml's
   date-time-or-table visitor, which takes strings only; every later key is
   read as a String, whose visitor also takes a byte array that is valid UTF-8. *)
Definition key_string (first : bool) (k : mval) : option bytes :=
  match k with
  | VStr s => Some s
  | VBin s => if first then None else if utf8_valid s then Some s else None
  | _ => None
  end.

(* the entries of one table, in order: a key that is not a string, a key seen
   before in this table, or an offence inside the value *)
Fixpoint members_ref (f : mval -> option trefusal) (seen : list bytes) (l : list (mval * mval)) : option trefusal :=
  match l with
  | [] => None
  | kv :: r =>
      match key_string (no_keys seen) (fst kv) with
      | Some s =>
          if mem_bytes s seen then Some TRDupKey
          else match f (snd kv) with Some e => Some e | None => members_ref f (s :: seen) r end
      | None => Some TRKey
      end
  end.

Fixpoint tcheck (v : mval) : option trefusal :=
  match v with
  | VNil => Some TRNull
  | VBool _ | VNeg _ | VF32 _ | VF64 _ | VStr _ => None
  | VUInt n => if (n <=? 9223372036854775807)%N then None else Some TRBigInt
  | VBin _ => Some TRBytes
  | VArr vs => first_ref tcheck vs
  | VMap kvs =>
      (* members_ref tcheck [] kvs, written out so that the recursion is visibly structural *)
      (fix go (seen : list bytes) (l : list (mval * mval)) : option trefusal :=
         match l with
         | [] => None
         | (k, x) :: r =>
             match key_string (no_keys seen) k with
             | Some s =>
                 if mem_bytes s seen then Some TRDupKey
                 else match tcheck x with Some e => Some e | None => go (s :: seen) r end
             | None => Some TRKey
             end
         end) [] kvs
  end.

Lemma tcheck_map kvs : tcheck (VMap kvs) = members_ref tcheck [] kvs.
Proof.
  cbn [tcheck]. generalize (@nil bytes) as seen. induction kvs as [|[k x] kvs IH]; intros seen; [reflexivity|].
  cbn [members_ref fst snd]. destruct (key_string (no_keys seen) k) as [s|]; [|reflexivity].
  destruct (mem_bytes s seen); [reflexivity|]. destruct (tcheck x); [reflexivity|]. apply IH.
Qed.

(* None: the document is accepted and written *)
Definition toml_verdict (v : mval) : option trefusal :=
  match tcheck v with
  | Some e => Some e
  | None => match v with VMap _ => None | _ => Some TRNotTable end
  end.

(* ---------- from the MessagePack reader's events to a value (for running the
   model on bytes; not used in any theorem) ---------- *)
Fixpoint mtree_of (fuel : nat) (es : list ev) {struct fuel} : option (mval * list ev) :=
  match fuel with
  | O => None
  | S f =>
      match es with
      | EUnit :: r => Some (VNil, r)
      | EBool b :: r => Some (VBool b, r)
      | EUInt _ n :: r => Some (VUInt n, r)
      | ESInt _ z :: r => Some (VNeg z, r)
      | EF32 b :: r => Some (VF32 b, r)
      | EF64 b :: r => Some (VF64 b, r)
      | EStr s :: r => Some (VStr s, r)
      | EBytes s :: r => Some (VBin s, r)
      | ESeq _ :: r =>
          match melems_of f r with
          | Some (vs, r') => Some (VArr vs, r')
          | None => None
          end
      | EMap _ :: r =>
          match mmembers_of f r with
          | Some (kvs, r') => Some (VMap kvs, r')
          | None => None
          end
      | _ => None
      end
  end
with melems_of (fuel : nat) (es : list ev) {struct fuel} : option (list mval * list ev) :=
  match fuel with
  | O => None
  | S f =>
      match es with
      | ESeqEnd :: r => Some ([], r)
      | _ =>
          match mtree_of f es with
          | Some (v, r) =>
              match melems_of f r with
              | Some (vs, r') => Some (v :: vs, r')
              | None => None
              end
          | None => None
          end
      end
  end
with mmembers_of (fuel : nat) (es : list ev) {struct fuel} : option (list (mval * mval) * list ev) :=
  match fuel with
  | O => None
  | S f =>
      match es with
      | EMapEnd :: r => Some ([], r)
      | _ =>
          match mtree_of f es with
          | Some (k, r0) =>
              match mtree_of f r0 with
              | Some (v, r1) =>
                  match mmembers_of f r1 with
                  | Some (kvs, r') => Some ((k, v) :: kvs, r')
                  | None => None
                  end
              | None => None
              end
          | None => None
          end
      end
  end.

Inductive tv_result := TVNone | TVAccept | TVRefuse (r : trefusal).

(* MessagePack -> TOML verdict through the model, for an input holding exactly one document *)
Definition msgpack_toml_verdict (inp : bytes) : tv_result :=
  let r := transcode_slice utf8_valid inp in
  if mm_ok r then
    match fst r with
    | [es] =>
        match mtree_of (S (length es)) es with
        | Some (v, []) => match toml_verdict v with None => TVAccept | Some e => TVRefuse e end
        | _ => TVNone
        end
    | _ => TVNone
    end
  else TVNone.
