(* JsonTrialModel.v — xt's JSON detection trial (json.rs: input_matches):
   `IgnoredAny::deserialize` on a serde_json Deserializer, which serde_json 1.0.138
   implements with `ignore_value` — a scanner that skips one value without
   building anything: the same grammar as the real parse, but no recursion
   limit, no range check on numbers, no check of \u escapes beyond four hex
   digits, and (for a reader) no UTF-8 validation of string contents.  For a
   slice xt validates the whole input as UTF-8 first and answers "no" when that
   fails.  Nothing after the first value is looked at.

   serde_json's scanner is a loop with an explicit stack of open brackets; here
   it is the equivalent recursive descent on fuel (diffed against the real trial
   on every run by the JI correspondence). *)
From XtModel Require Import Base Utf8 MsgpackModel JsonModel.

(* Read::ignore_str, after the opening quote: skip to the closing quote; an
   escape is a backslash and a quote, backslash, slash, b, f, n, r or t, or u and four hex digits *)
Fixpoint ignore_str (fuel : nat) (inp : bytes) : jres :=
  match fuel with
  | O => JErr JOutOfFuel
  | S f =>
      match inp with
      | [] => JErr JEof
      | b :: r =>
          if (b =? 34)%N then JOk r
          else if (b =? 92)%N then
            match r with
            | [] => JErr JEof
            | c :: r1 =>
                match simple_escape c with
                | Some _ => ignore_str f r1
                | None =>
                    if (c =? 117)%N then
                      match hex4 r1 with
                      | HexEof => JErr JEof
                      | HexBad => JErr JSyntax
                      | HexOk _ r2 => ignore_str f r2
                      end
                    else JErr JSyntax
                end
            end
          else if (b <? 32)%N then JErr JSyntax
          else ignore_str f r
      end
  end.

Definition ignore_string (inp : bytes) : jres := ignore_str (S (length inp)) inp.

(* ignore_exponent, after the exponent marker *)
Definition ignore_exp (inp : bytes) : jres :=
  let r := snd (exp_sign inp) in
  match r with
  | [] => JErr JEof
  | b :: _ => if is_digit b then JOk (snd (take_digits r)) else JErr JSyntax
  end.

(* ignore_decimal, after the point *)
Definition ignore_frac (r : bytes) : jres :=
  let (fs, r2) := take_digits r in
  match fs with
  | [] => JErr (match r2 with [] => JEof | _ => JSyntax end)
  | _ :: _ =>
      match r2 with
      | c :: r3 => if is_e c then ignore_exp r3 else JOk r2
      | [] => JOk r2
      end
  end.

Definition ignore_after_int (inp : bytes) : jres :=
  match inp with
  | b :: r => if (b =? 46)%N then ignore_frac r else if is_e b then ignore_exp r else JOk inp
  | [] => JOk inp
  end.

(* ignore_integer, after an optional minus sign *)
Definition ignore_number (inp : bytes) : jres :=
  match inp with
  | [] => JErr JEof
  | b :: r =>
      if (b =? 48)%N then
        match r with
        | d :: _ => if is_digit d then JErr JSyntax else ignore_after_int r
        | [] => ignore_after_int r
        end
      else if is_digit b then ignore_after_int (snd (take_digits inp))
      else JErr JSyntax
  end.

Definition ok_rest (r : jres) (k : bytes -> jres) : jres :=
  match r with JOk rest => k rest | JErr e => JErr e end.

Fixpoint ignore_val (fuel : nat) (inp : bytes) {struct fuel} : jres :=
  match fuel with
  | O => JErr JOutOfFuel
  | S f =>
      match skip_ws inp with
      | [] => JErr JEof
      | b :: r =>
          if (b =? 110)%N then parse_ident [117; 108; 108]%N r
          else if (b =? 116)%N then parse_ident [114; 117; 101]%N r
          else if (b =? 102)%N then parse_ident [97; 108; 115; 101]%N r
          else if (b =? 45)%N then ignore_number r
          else if is_digit b then ignore_number (b :: r)
          else if (b =? 34)%N then ignore_string r
          else if (b =? 91)%N then ignore_elems f r true
          else if (b =? 123)%N then ignore_members f r true
          else JErr JSyntax
      end
  end
with ignore_elems (fuel : nat) (inp : bytes) (first : bool) {struct fuel} : jres :=
  match fuel with
  | O => JErr JOutOfFuel
  | S f =>
      let element (at_ : bytes) : jres := ok_rest (ignore_val f at_) (fun rest => ignore_elems f rest false) in
      match skip_ws inp with
      | [] => JErr JEof
      | b :: r =>
          if (b =? 93)%N then JOk r
          else if first then element (b :: r)
          else if (b =? 44)%N then
            match skip_ws r with
            | [] => JErr JEof
            | c :: r' => if (c =? 93)%N then JErr JSyntax else element (c :: r')
            end
          else JErr JSyntax
      end
  end
with ignore_members (fuel : nat) (inp : bytes) (first : bool) {struct fuel} : jres :=
  match fuel with
  | O => JErr JOutOfFuel
  | S f =>
      (* [at_] starts after the key's opening quote *)
      let member (at_ : bytes) : jres :=
        ok_rest (ignore_string at_) (fun r1 =>
          match skip_ws r1 with
          | [] => JErr JEof
          | c :: r2 =>
              if (c =? 58)%N then ok_rest (ignore_val f r2) (fun rest => ignore_members f rest false)
              else JErr JSyntax
          end) in
      match skip_ws inp with
      | [] => JErr JEof
      | b :: r =>
          if (b =? 125)%N then JOk r
          else if first then (if (b =? 34)%N then member r else JErr JSyntax)
          else if (b =? 44)%N then
            match skip_ws r with
            | [] => JErr JEof
            | c :: r' => if (c =? 34)%N then member r' else JErr JSyntax
            end
          else JErr JSyntax
      end
  end.

Definition res_ok (r : jres) : bool := match r with JOk _ => true | JErr _ => false end.

(* json::input_matches on a reader and on a slice (fault-free source) *)
Definition json_trial_reader (inp : bytes) : bool := res_ok (ignore_val (json_fuel inp) inp).
Definition json_trial_slice (inp : bytes) : bool := utf8_valid inp && res_ok (ignore_val (json_fuel inp) inp).
