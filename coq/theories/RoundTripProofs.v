(* RoundTripProofs.v — idempotence and round trip of xt's own output, reduced
   to what xt itself does (forward the reader's calls to the writer unchanged:
   FidelityProofs.stream_forwarding) and to explicit contracts on the codec of
   format B (its reader reads what its writer wrote to calls that its writer
   writes identically again).  The contract is a premise, never an axiom. *)
From XtModel Require Import Base.

Section Idempotence.
  Variables call text : Type.
  (* a format's reader: text to the call stream it drives a visitor with; its
     writer: calls to text (None = refusal) *)
  Variable dec_a : text -> option (list call).
  Variable dec_b : text -> option (list call).
  Variable enc_a : list call -> option text.
  Variable enc_b : list call -> option text.

  (* xt A->B: the reader's calls forwarded unchanged to the writer *)
  Definition xt (dec : text -> option (list call)) (enc : list call -> option text) (t : text) : option text :=
    match dec t with Some c => enc c | None => None end.

  (* the writer of B is a retraction of its reader on the writer's image, up to
     a canonical form the writer does not distinguish *)
  Hypothesis H_b_canonical :
    forall c t, enc_b c = Some t -> exists c', dec_b t = Some c' /\ enc_b c' = Some t.

  Theorem output_is_a_fixed_point :
    forall x t, xt dec_a enc_b x = Some t -> xt dec_b enc_b t = Some t.
  Proof.
    intros x t H. unfold xt in *. destruct (dec_a x) as [c|]; [|discriminate].
    destruct (H_b_canonical c t H) as (c' & Hd & He). now rewrite Hd.
  Qed.

  (* round trip: B's reader gives back calls that A's writer cannot tell from
     the ones A's reader produced *)
  Hypothesis H_b_faithful_for_a :
    forall c t, enc_b c = Some t -> exists c', dec_b t = Some c' /\ enc_a c' = enc_a c.

  Theorem round_trip_equals_direct :
    forall x t, xt dec_a enc_b x = Some t -> xt dec_b enc_a t = xt dec_a enc_a x.
  Proof.
    intros x t H. unfold xt in *. destruct (dec_a x) as [c|]; [|discriminate].
    destruct (H_b_faithful_for_a c t H) as (c' & Hd & He). now rewrite Hd.
  Qed.
End Idempotence.
