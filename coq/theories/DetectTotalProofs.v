(* DetectTotalProofs.v — format detection is total and transparent when the
   source does not fail (C09):

   - a trial that reports an I/O error only when it observed one ("honest":
     what the repaired MessagePack / JSON / YAML trials do, msgpack.rs:44-53,
     json.rs:11-24, yaml.rs:17-34) can never make detection fail over a source
     whose fault, if any, lies beyond the data: the outcome is a format or
     "no format", for every read schedule, over a reader and over a slice;
   - whatever detection did, the parser that runs afterwards is handed exactly
     the stream (bytes and, over a faulting source, the fault) that it is
     handed when the format is named and no detection runs at all. *)
From XtModel Require Import Base InputModel InputProofs FormatsModel DetectModel DetectProofs.

Definition obs_is_error (ob : obs) : bool :=
  match ob with
  | ObsRead (Err _) | ObsPrefix (Err _) => true
  | _ => false
  end.

Definition saw_error (os : list obs) : bool := existsb obs_is_error os.

(* A third-party trial is honest when it answers "I/O error" only after the
   handle showed it one. *)
Definition honest (t : trial) : Prop :=
  forall os e, t_verdict t os = Err e -> saw_error os = true.

Lemma fault_free_not_visible D K e : fault_free D K -> fault_visible D K e -> False.
Proof. intros Hff (k & Hk & Hle & _). specialize (Hff k Hk). lia. Qed.

(* Over a source that does not fail within its data no observation is an error. *)
Lemma trace_ok_clean D K : fault_free D K ->
  forall ops os sl p, trace_ok D K sl p ops os -> saw_error os = false.
Proof.
  intros Hff. induction ops as [|o ops IH]; intros os sl p H.
  - destruct os as [|ob os]; [reflexivity|destruct H].
  - destruct os as [|ob os]; [destruct o; destruct H|].
    unfold saw_error. cbn [existsb].
    destruct o as [|n|n]; destruct ob as [b|[bs|e]|[bs|e]|]; cbn [trace_ok] in H; try contradiction;
      cbn [obs_is_error orb].
    + destruct H as [_ H]. exact (IH os _ _ H).
    + destruct H as [_ H]. destruct p as [q|]; [destruct H as [_ H]|]; exact (IH os _ _ H).
    + destruct H as (_ & Hv & _). destruct (fault_free_not_visible D K e Hff Hv).
    + destruct H as [_ H]. exact (IH os _ _ H).
    + destruct H as [_ H]. exact (IH os _ _ H).
    + destruct H as (_ & Hv & _). destruct (fault_free_not_visible D K e Hff Hv).
Qed.

Section Total.
  Variable sched : nat -> nat.
  Variable cutoff : nat.
  Variable toml_parses : bytes -> bool.

  (* a reachable program state over a source that does not fail within its data *)
  Definition CleanState (d : bytes) (flt : option nat) (st : pstate) : Prop :=
    exists sl p, SInv st sl p /\ hdata (fst st) = d /\ hfault (fst st) = flt.

  Lemma clean_trial d flt t st :
    fault_free d flt -> honest t -> CleanState d flt st ->
    CleanState d flt (fst (run_trial sched t st)) /\
    exists b, snd (run_trial sched t st) = Ok b.
  Proof.
    intros Hff Hh (sl & p & HS & Hd & Hf). unfold run_trial.
    destruct (step sched st OReborrow) as [st1 ob] eqn:Hs1.
    destruct (step_ok sched st OReborrow st1 ob sl p HS Hs1) as (Hd1 & Hf1 & sl1 & p1 & HS1 & Hstep).
    destruct (run sched st1 (t_ops t)) as [st2 os] eqn:Hr.
    destruct (run_ok sched (t_ops t) st1 st2 os sl1 p1 HS1 Hr) as (Hd2 & Hf2 & HH2 & Ht).
    cbn [fst snd]. split.
    - destruct (run_trial_state sched t st sl p HS) as (Hd' & Hf' & sl' & p' & HS').
      unfold run_trial in Hd', Hf', HS'. rewrite Hs1, Hr in Hd', Hf', HS'. cbn [fst] in Hd', Hf', HS'.
      exists sl', p'. split; [exact HS'|]. split; congruence.
    - rewrite Hd1, Hf1 in Ht. specialize (Hstep _ _ Ht). rewrite Hd, Hf in Hstep.
      pose proof (trace_ok_clean d flt Hff _ _ _ _ Hstep) as Hclean.
      destruct (t_verdict t (ob :: os)) as [b|e] eqn:Hv; [now exists b|].
      rewrite (Hh _ _ Hv) in Hclean. discriminate.
  Qed.

  Lemma clean_toml d flt st :
    fault_free d flt -> CleanState d flt st ->
    exists b, snd (toml_trial sched cutoff toml_parses st) = Ok b.
  Proof.
    intros Hff (sl & p & HS & Hd & Hf). unfold toml_trial.
    destruct (step sched st OReborrow) as [st1 ob] eqn:Hs1.
    destruct (step_ok sched st OReborrow st1 ob sl p HS Hs1) as (Hd1 & Hf1 & sl1 & p1 & HS1 & _).
    assert (G : forall n st2 e, step sched st1 (OPrefix n) = (st2, ObsPrefix (Err e)) -> False).
    { intros n st2 e Hs2.
      destruct (step_ok sched st1 (OPrefix n) st2 _ sl1 p1 HS1 Hs2) as (_ & _ & sl2 & p2 & _ & Hstep2).
      specialize (Hstep2 [] [] I). cbn [trace_ok] in Hstep2. destruct Hstep2 as (_ & Hv & _).
      rewrite Hd1, Hf1, Hd, Hf in Hv. exact (fault_free_not_visible d flt e Hff Hv). }
    destruct ob as [[|]| | |].
    - destruct (step sched st1 (OPrefix 0)) as [st2 [b|[bs|e]|[bs|e]|]]; cbn [snd]; eauto.
    - destruct (step sched st1 (OPrefix cutoff)) as [st2 [b|[bs|e]|[bs|e]|]] eqn:Hs2; cbn [snd]; eauto.
      destruct (G _ _ _ Hs2).
    - destruct (step sched st1 (OPrefix cutoff)) as [st2 [b|[bs|e]|[bs|e]|]] eqn:Hs2; cbn [snd]; eauto.
      destruct (G _ _ _ Hs2).
    - destruct (step sched st1 (OPrefix cutoff)) as [st2 [b|[bs|e]|[bs|e]|]] eqn:Hs2; cbn [snd]; eauto.
      destruct (G _ _ _ Hs2).
    - destruct (step sched st1 (OPrefix cutoff)) as [st2 [b|[bs|e]|[bs|e]|]] eqn:Hs2; cbn [snd]; eauto.
      destruct (G _ _ _ Hs2).
  Qed.

  Lemma detect_clean d flt tm tj ty st :
    fault_free d flt -> honest tm -> honest tj -> honest ty -> CleanState d flt st ->
    exists r, snd (detect sched cutoff toml_parses tm tj ty st) = Ok r.
  Proof.
    intros Hff Hm Hj Hy H0. unfold detect.
    destruct (clean_trial d flt tm st Hff Hm H0) as (H1 & b1 & E1).
    destruct (run_trial sched tm st) as [st1 r1]. cbn [fst snd] in *. subst r1.
    destruct b1; [eexists; reflexivity|].
    destruct (clean_trial d flt tj st1 Hff Hj H1) as (H2 & b2 & E2).
    destruct (run_trial sched tj st1) as [st2 r2]. cbn [fst snd] in *. subst r2.
    destruct b2; [eexists; reflexivity|].
    destruct (clean_trial d flt ty st2 Hff Hy H2) as (H3 & b3 & E3).
    destruct (run_trial sched ty st2) as [st3 r3]. cbn [fst snd] in *. subst r3.
    destruct b3; [eexists; reflexivity|].
    destruct (clean_toml d flt st3 Hff H3) as (b4 & E4).
    destruct (toml_trial sched cutoff toml_parses st3) as [st4 r4]. cbn [snd] in *. subst r4.
    destruct b4; eexists; reflexivity.
  Qed.

  (* Detection over a reader whose source does not fail within its data never
     fails with an error: it selects a format or reports that none matches. *)
  Theorem detect_reader_never_errs d flt tm tj ty :
    fault_free d flt -> honest tm -> honest tj -> honest ty ->
    exists r, snd (detect_reader sched cutoff toml_parses tm tj ty d flt) = Ok r.
  Proof.
    intros Hff Hm Hj Hy. unfold detect_reader.
    destruct (start_ok (from_reader d flt) (Inv_new d flt)) as (sl & HS & Hd0 & Hf0).
    apply (detect_clean d flt); try assumption.
    exists sl, (Some 0). split; [exact HS|]. split; [exact Hd0|exact Hf0].
  Qed.

  (* ... and neither does detection over a slice. *)
  Theorem detect_slice_never_errs d tm tj ty :
    honest tm -> honest tj -> honest ty ->
    exists r, snd (detect sched cutoff toml_parses tm tj ty (start (HSlice d))) = Ok r.
  Proof.
    intros Hm Hj Hy.
    destruct (start_ok (HSlice d) I) as (sl & HS & Hd0 & Hf0).
    apply (detect_clean d None); try assumption.
    - intros k [=].
    - exists sl, (Some 0). split; [exact HS|]. split; [exact Hd0|exact Hf0].
  Qed.
End Total.

(* ---------- detected = explicit, as far as the input goes ---------- *)

(* what the parser that is given the input reads from it: the bytes, and the
   error that ends them if the source fails *)
Definition stream_of (o : fobs) : bytes * option ioerr :=
  match o with
  | FSlice b => (b, None)
  | FReader bs e => (bs, e)
  | FCow (Ok b) => (b, None)
  | FCow (Err e) => ([], Some e)
  end.

Lemma final_ok_input_unique D K h1 h2 :
  final_ok D K (finish h1 FinInput) -> final_ok D K (finish h2 FinInput) ->
  stream_of (finish h1 FinInput) = stream_of (finish h2 FinInput).
Proof.
  assert (Shape : forall h, (exists b, finish h FinInput = FSlice b) \/ (exists bs e, finish h FinInput = FReader bs e)).
  { intros h. unfold finish. destruct (into_input h) as [b|r]; [left; now exists b|].
    right. destruct (owned_drain r) as [bs e]. now exists bs, e. }
  intros H1 H2.
  destruct (Shape h1) as [(b1 & E1)|(bs1 & e1 & E1)]; destruct (Shape h2) as [(b2 & E2)|(bs2 & e2 & E2)];
    rewrite E1 in *; rewrite E2 in *; cbn [final_ok stream_of] in *.
  - destruct H1 as [-> _], H2 as [-> _]. reflexivity.
  - destruct H1 as [-> Hff]. destruct e2 as [e2|].
    + destruct H2 as (k & Hk & Hle & _). specialize (Hff k Hk). lia.
    + destruct H2 as [-> _]. reflexivity.
  - destruct H2 as [-> Hff]. destruct e1 as [e1|].
    + destruct H1 as (k & Hk & Hle & _). specialize (Hff k Hk). lia.
    + destruct H1 as [-> _]. reflexivity.
  - destruct e1 as [e1|], e2 as [e2|].
    + destruct H1 as (k1 & Hk1 & _ & -> & ->), H2 as (k2 & Hk2 & _ & -> & ->).
      rewrite Hk1 in Hk2. injection Hk2 as ->. reflexivity.
    + destruct H1 as (k & Hk & Hle & _), H2 as [_ Hff]. specialize (Hff k Hk). lia.
    + destruct H2 as (k & Hk & Hle & _), H1 as [_ Hff]. specialize (Hff k Hk). lia.
    + destruct H1 as [-> _], H2 as [-> _]. reflexivity.
Qed.

(* Whatever the trials did (any programs, any verdicts, any read schedule, a
   source that fails anywhere or not at all), handing the input over after
   detection gives the parser the same stream as handing it over untouched. *)
Theorem detected_input_is_explicit_input sched cutoff toml_parses tm tj ty d flt :
  stream_of (finish (fst (fst (detect_reader sched cutoff toml_parses tm tj ty d flt))) FinInput) =
  stream_of (finish (from_reader d flt) FinInput).
Proof.
  apply (final_ok_input_unique d flt).
  - apply detect_then_own.
  - pose proof (finish_ok (from_reader d flt) FinInput (Inv_new d flt)) as H.
    exact H.
Qed.

(* non-vacuity: an honest trial over a 3-byte stream read one byte at a time *)
Example honest_example :
  let t := {| t_ops := [ORead 1; ORead 5]; t_verdict := fun os => if saw_error os then Err (SrcFault 0) else Ok false |} in
  honest t /\
  snd (detect_reader (fun _ => 0) 10 (fun _ => true) t t t [1; 2; 3]%N None) = Ok (Some Toml).
Proof.
  split.
  - intros os e. cbn [t_verdict]. destruct (saw_error os); [reflexivity|discriminate].
  - vm_compute. reflexivity.
Qed.
