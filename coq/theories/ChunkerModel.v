(* ChunkerModel.v — src/yaml/chunker.rs: the iterator that cuts a YAML byte
   stream into documents at the DOCUMENT-END offsets reported by the parser
   (libyaml), emitting each document one step late (when the next document
   starts or the stream ends).

   The parser is third-party: it is represented by the list of events it
   produces, each DOCUMENT-END carrying its end offset and the number of bytes
   pulled from the reader so far (ChunkReader::captured holds the bytes from
   [start] to [pulled]).  Every operation that can panic (u64 subtraction,
   Vec::split_off, String::from_utf8().unwrap()) is an explicit outcome.
   Definitions only. *)
From XtModel Require Import Base Utf8.

Inductive yev :=
| YDocStart
| YScalar
| YCollStart                          (* SEQUENCE-START or MAPPING-START *)
| YDocEnd (end_off pulled : nat)
| YStreamEnd
| YOther                              (* STREAM-START, ALIAS, SEQUENCE-END, MAPPING-END *)
| YErr.                               (* next_event failed *)

Record chunk := { c_content : bytes; c_coll : bool }.

Inductive item :=
| IDoc (c : chunk)
| IErr
| IPanic (site : nat).                (* 1: offset - start underflows; 2: split_off out of range; 3: not UTF-8 *)

Record cstate := {
  cs_start : nat;                     (* captured_start_offset *)
  cs_last : option chunk;             (* last_document *)
  cs_kind : option bool               (* current_document_kind; Some true = Collection *)
}.

Definition cs0 : cstate := {| cs_start := 0; cs_last := None; cs_kind := None |}.

(* Driving the iterator to exhaustion (as `for doc in Chunker::new(..)` and the
   verif hook do): the items it yields, in order; iteration stops after an
   error, a panic, or STREAM-END. *)
Fixpoint chunk_items (data : bytes) (evs : list yev) (st : cstate) : list item :=
  match evs with
  | [] => []
  | e :: evs' =>
      match e with
      | YErr => [IErr]
      | YDocStart =>
          let st' := {| cs_start := cs_start st; cs_last := None; cs_kind := None |} in
          match cs_last st with
          | Some d => IDoc d :: chunk_items data evs' st'
          | None => chunk_items data evs' st'
          end
      | YScalar =>
          chunk_items data evs' {| cs_start := cs_start st; cs_last := cs_last st;
                              cs_kind := match cs_kind st with None => Some false | k => k end |}
      | YCollStart =>
          chunk_items data evs' {| cs_start := cs_start st; cs_last := cs_last st;
                              cs_kind := match cs_kind st with None => Some true | k => k end |}
      | YDocEnd off pulled =>
          if off <? cs_start st then [IPanic 1]
          else
            let take := off - cs_start st in
            if pulled - cs_start st <? take then [IPanic 2]
            else
              let content := firstn take (skipn (cs_start st) data) in
              if utf8_valid content then
                chunk_items data evs'
                  {| cs_start := off;
                     cs_last := Some {| c_content := content;
                                        c_coll := match cs_kind st with Some true => true | _ => false end |};
                     cs_kind := None |}
              else [IPanic 3]
      | YStreamEnd =>
          match cs_last st with Some d => [IDoc d] | None => [] end
      | YOther => chunk_items data evs' st
      end
  end.

Definition chunker (data : bytes) (evs : list yev) : list item := chunk_items data evs cs0.

(* ---------- the specification side ---------- *)

(* One document as the parser reports it: its end offset, how much had been
   pulled by then, and whether its first content event is a collection start. *)
Record docspan := { d_end : nat; d_pulled : nat; d_coll : bool }.

(* the events of a well-formed stream of the given documents: before each
   document any number of other events, inside it its content events *)
Definition body_events (coll : option bool) : list yev :=
  match coll with
  | Some true => [YCollStart; YScalar; YOther]
  | Some false => [YScalar]
  | None => []
  end.

(* the slices a list of spans cuts out of the data, starting at [from] *)
Fixpoint slices (data : bytes) (from : nat) (ds : list docspan) : list chunk :=
  match ds with
  | [] => []
  | d :: ds' =>
      {| c_content := firstn (d_end d - from) (skipn from data); c_coll := d_coll d |} :: slices data (d_end d) ds'
  end.

(* libyaml's contract as far as the chunker relies on it: offsets do not go
   backwards, never exceed what was pulled, and every cut is valid UTF-8 *)
Fixpoint spans_wf (data : bytes) (from : nat) (ds : list docspan) : Prop :=
  match ds with
  | [] => True
  | d :: ds' =>
      from <= d_end d /\ d_end d <= d_pulled d /\ d_pulled d <= length data /\
      utf8_valid (firstn (d_end d - from) (skipn from data)) = true /\
      spans_wf data (d_end d) ds'
  end.

(* An event list is a rendering of a span list: per document DOCUMENT-START,
   content events whose first collection/scalar event fixes the kind, then
   DOCUMENT-END; finally STREAM-END.  [YOther] events may appear anywhere. *)
Inductive content_of : bool -> list yev -> Prop :=
| ContentNil : content_of false []
| ContentOther b evs : content_of b evs -> content_of b (YOther :: evs)
| ContentScalar evs : only_content evs -> content_of false (YScalar :: evs)
| ContentColl evs : only_content evs -> content_of true (YCollStart :: evs)
with only_content : list yev -> Prop :=
| OnlyNil : only_content []
| OnlyOther evs : only_content evs -> only_content (YOther :: evs)
| OnlyScalar evs : only_content evs -> only_content (YScalar :: evs)
| OnlyColl evs : only_content evs -> only_content (YCollStart :: evs).

Inductive renders : list docspan -> list yev -> Prop :=
| RendersEnd : renders [] [YStreamEnd]
| RendersOther ds evs : renders ds evs -> renders ds (YOther :: evs)
| RendersDoc d ds body evs :
    content_of (d_coll d) body -> renders ds evs ->
    renders (d :: ds) (YDocStart :: body ++ YDocEnd (d_end d) (d_pulled d) :: evs).

(* ---------- has_document (chunker.rs): the guard of the in-memory UTF-8 path ----------
   yaml.rs hands an in-memory UTF-8 stream to serde_yaml only if it holds a
   document; the guard runs the parser up to the first DOCUMENT-START and
   answers true for an error too (so that the consumer surfaces it).  On the
   event list: *)
Fixpoint has_document (evs : list yev) : bool :=
  match evs with
  | [] => false
  | YStreamEnd :: _ => false
  | YDocStart :: _ | YErr :: _ => true
  | _ :: r => has_document r
  end.
