(* TruncProofs.v — an input cut short (a reader that starts failing part-way)
   makes the Translator write a prefix of what the complete input would have
   produced: the complete documents delivered before the fault are, in order,
   documents of the fault-free output, followed at most by the beginning of
   the document that was being translated. *)
From XtModel Require Import Base FormatsModel FormatsProofs.

(* What a call becomes when its input is cut short: the first j documents
   unchanged, then possibly the beginning of document j (the serializer had
   started on it), then the input-side error. *)
Inductive truncation (c : call) : call -> Prop :=
| TruncClean j : truncation c {| docs := firstn j (docs c); input_ok := false |}
| TruncPartial j d p :
    nth_error (docs c) j = Some d -> prefix_of p (doc_body d) ->
    truncation c {| docs := firstn j (docs c) ++ [DocRefused p]; input_ok := false |}.

Lemma run_docs_app to ds1 ds2 : forall st i,
  run_docs to st (ds1 ++ ds2) i =
    match run_docs to st ds1 i with
    | (st1, None) => run_docs to st1 ds2 (i + length ds1)
    | r => r
    end.
Proof.
  induction ds1 as [|d ds1 IH]; intros st i; cbn [run_docs app length].
  - now rewrite Nat.add_0_r.
  - assert (G : match emit to st d with
                | (st', true) => run_docs to st' (ds1 ++ ds2) (S i)
                | (st', false) => (st', Some (VErrDoc i))
                end =
                match match emit to st d with
                      | (st', true) => run_docs to st' ds1 (S i)
                      | (st', false) => (st', Some (VErrDoc i))
                      end with
                | (st1, None) => run_docs to st1 ds2 (i + S (length ds1))
                | r => r
                end).
    { destruct (emit to st d) as [st' [|]]; [|reflexivity].
      rewrite IH. replace (S i + length ds1) with (i + S (length ds1)) by lia. reflexivity. }
    destruct to; try exact G. destruct (used st); [reflexivity|exact G].
Qed.

Lemma emit_refused_prefix to st d p :
  prefix_of p (doc_body d) ->
  prefix_of (sink (fst (emit to st (DocRefused p)))) (sink (fst (emit to st d))).
Proof.
  intros [z Hz]. destruct to, d as [b|q]; cbn [emit fst sink doc_body] in *; subst;
    try apply prefix_of_app; try apply prefix_of_refl.
  - exists (z ++ newline). now rewrite <- !app_assoc.
  - exists z. now rewrite <- !app_assoc.
  - exists z. now rewrite <- !app_assoc.
  - exists z. now rewrite <- !app_assoc.
  - exists z. now rewrite <- !app_assoc.
  - exists z. now rewrite <- !app_assoc.
Qed.

Lemma run_docs_firstn to ds j : forall st i,
  prefix_of (sink (fst (run_docs to st (firstn j ds) i))) (sink (fst (run_docs to st ds i))).
Proof.
  intros st i. rewrite <- (firstn_skipn j ds) at 2. rewrite run_docs_app.
  destruct (run_docs to st (firstn j ds) i) as [st1 [v|]]; cbn [fst]; [apply prefix_of_refl|].
  apply run_docs_extends.
Qed.

Lemma nth_error_split {A} (l : list A) j d :
  nth_error l j = Some d -> l = firstn j l ++ d :: skipn (S j) l.
Proof.
  revert j; induction l as [|x l IH]; intros [|j] H; cbn in *; try discriminate.
  - now injection H as ->.
  - unfold firstn, skipn; fold (firstn j l); fold (skipn (S j) l). cbn. f_equal. now apply IH.
Qed.

Lemma run_docs_truncated to c c' : truncation c c' -> forall st,
  prefix_of (sink (fst (run_docs to st (docs c') 0))) (sink (fst (run_docs to st (docs c) 0))).
Proof.
  intros [j|j d p Hn Hp] st; cbn [docs].
  - apply run_docs_firstn.
  - rewrite (nth_error_split _ _ _ Hn) at 2. rewrite !run_docs_app.
    destruct (run_docs to st (firstn j (docs c)) 0) as [st1 [v|]]; cbn [fst]; [apply prefix_of_refl|].
    cbn [run_docs].
    assert (G : prefix_of
      (sink (fst (match emit to st1 (DocRefused p) with
                  | (st', true) => (st', None)
                  | (st', false) => (st', Some (VErrDoc (0 + length (firstn j (docs c)))))
                  end)))
      (sink (fst (match emit to st1 d with
                  | (st', true) => run_docs to st' (skipn (S j) (docs c)) (S (0 + length (firstn j (docs c))))
                  | (st', false) => (st', Some (VErrDoc (0 + length (firstn j (docs c)))))
                  end)))).
    { pose proof (emit_refused_prefix to st1 d p Hp) as He.
      assert (Hr : snd (emit to st1 (DocRefused p)) = false) by (destruct to; reflexivity).
      destruct (emit to st1 (DocRefused p)) as [sa ba]. cbn [snd] in Hr. subst ba.
      destruct (emit to st1 d) as [sb [|]]; cbn [fst] in *; [|exact He].
      eapply prefix_of_trans; [exact He|apply run_docs_extends]. }
    destruct to; try exact G. destruct (used st1); [apply prefix_of_refl|exact G].
Qed.

Lemma fst_run_calls_cons to st c cs :
  fst (run_calls to st (c :: cs)) = fst (run_calls to (fst (run_docs to st (docs c) 0)) cs).
Proof.
  cbn [run_calls]. unfold run_call.
  destruct (run_docs to st (docs c) 0) as [st1 ov]. cbn [fst].
  destruct ov; destruct (run_calls to st1 cs); reflexivity.
Qed.

Lemma fst_run_calls_snoc to cs c : forall st,
  fst (run_calls to st (cs ++ [c])) = fst (run_docs to (fst (run_calls to st cs)) (docs c) 0).
Proof.
  induction cs as [|c0 cs IH]; intros st; cbn [app].
  - rewrite fst_run_calls_cons. reflexivity.
  - rewrite !fst_run_calls_cons. apply IH.
Qed.

Lemma snd_run_calls_snoc to cs c : forall st,
  snd (run_calls to st (cs ++ [c])) =
    snd (run_calls to st cs) ++ [snd (run_call to (fst (run_calls to st cs)) c)].
Proof.
  induction cs as [|c0 cs IH]; intros st; cbn [app].
  - cbn [run_calls fst snd app]. destruct (run_call to st c). reflexivity.
  - cbn [run_calls]. destruct (run_call to st c0) as [st1 v].
    specialize (IH st1).
    destruct (run_calls to st1 (cs ++ [c])) as [sa va]. destruct (run_calls to st1 cs) as [sb vb].
    cbn [fst snd] in *. now rewrite IH.
Qed.

(* The translation of a history whose last input is cut short is a prefix of the
   translation of the complete history, and the truncated call fails. *)
Theorem truncated_input_prefix to cs c c' :
  truncation c c' ->
  prefix_of (fst (translate_history to (cs ++ [c']))) (fst (translate_history to (cs ++ [c]))) /\
  exists vs v, snd (translate_history to (cs ++ [c'])) = vs ++ [v] /\ v <> VOk.
Proof.
  intros Ht. unfold translate_history.
  pose proof (fst_run_calls_snoc to cs c' t0) as E1.
  pose proof (fst_run_calls_snoc to cs c t0) as E2.
  pose proof (snd_run_calls_snoc to cs c' t0) as E3.
  destruct (run_calls to t0 (cs ++ [c'])) as [s1 v1]. destruct (run_calls to t0 (cs ++ [c])) as [s2 v2].
  cbn [fst snd] in *. subst s1 s2. split.
  - apply run_docs_truncated. exact Ht.
  - eexists _, _. split; [exact E3|].
    unfold run_call.
    assert (Hin : input_ok c' = false) by (destruct Ht; reflexivity).
    pose proof (run_docs_not_vok to (docs c') (fst (run_calls to t0 cs)) 0) as Hnv.
    destruct (run_docs to (fst (run_calls to t0 cs)) (docs c') 0) as [st' [v|]]; cbn [snd] in *.
    + intros ->. now elim Hnv.
    + rewrite Hin. discriminate.
Qed.

Example truncation_nonvacuous :
  let c := {| docs := [DocOk [1]%N; DocOk [2; 3]%N]; input_ok := true |} in
  truncation c {| docs := firstn 1 (docs c) ++ [DocRefused [2]%N]; input_ok := false |}.
Proof. apply (TruncPartial _ 1 (DocOk [2; 3]%N) [2]%N); [reflexivity|]. exists [3]%N. reflexivity. Qed.
