(* TranscodeModel.v — src/transcode/stream.rs, the streaming transcoder.

   A deserializer is a script (what it does when deserialize_any is called on
   it); a serializer is an automaton that logs every call and fails according
   to a schedule over a counter of primitive steps.  Visitor, Forwarder,
   SeqSeed/KeySeed/ValueSeed and their State { parent, error, source } are
   transliterated: every function returns the Result the Rust method returns
   together with the (error, source) registers of the State it owns.
   Definitions only. *)
From XtModel Require Import Base.

(* ---------- the 17 scalar visit methods and where they are forwarded ---------- *)

Inductive vmethod :=
| VUnit | VBool | VI8 | VI16 | VI32 | VI64 | VI128
| VU8 | VU16 | VU32 | VU64 | VU128 | VF32 | VF64 | VChar | VStr | VBytes.

Inductive smethod :=
| SUnit | SBool | SI8 | SI16 | SI32 | SI64 | SI128
| SU8 | SU16 | SU32 | SU64 | SU128 | SF32 | SF64 | SChar | SStr | SBytes.

(* stream.rs:306-329 *)
Definition forward (m : vmethod) : smethod :=
  match m with
  | VUnit => SUnit | VBool => SBool
  | VI8 => SI8 | VI16 => SI16 | VI32 => SI32 | VI64 => SI64 | VI128 => SI128
  | VU8 => SU8 | VU16 => SU16 | VU32 => SU32 | VU64 => SU64 | VU128 => SU128
  | VF32 => SF32 | VF64 => SF64
  | VChar => SChar | VStr => SStr | VBytes => SBytes
  end.

(* The type tag a method stands for; forwarding must keep it. *)
Inductive ttag :=
| TgUnit | TgBool | TgI (bits : nat) | TgU (bits : nat) | TgF (bits : nat) | TgChar | TgStr | TgBytes.

Definition vtag (m : vmethod) : ttag :=
  match m with
  | VUnit => TgUnit | VBool => TgBool
  | VI8 => TgI 8 | VI16 => TgI 16 | VI32 => TgI 32 | VI64 => TgI 64 | VI128 => TgI 128
  | VU8 => TgU 8 | VU16 => TgU 16 | VU32 => TgU 32 | VU64 => TgU 64 | VU128 => TgU 128
  | VF32 => TgF 32 | VF64 => TgF 64
  | VChar => TgChar | VStr => TgStr | VBytes => TgBytes
  end.

Definition stag (m : smethod) : ttag :=
  match m with
  | SUnit => TgUnit | SBool => TgBool
  | SI8 => TgI 8 | SI16 => TgI 16 | SI32 => TgI 32 | SI64 => TgI 64 | SI128 => TgI 128
  | SU8 => TgU 8 | SU16 => TgU 16 | SU32 => TgU 32 | SU64 => TgU 64 | SU128 => TgU 128
  | SF32 => TgF 32 | SF64 => TgF 64
  | SChar => TgChar | SStr => TgStr | SBytes => TgBytes
  end.

(* ---------- deserializer scripts ---------- *)

(* How an access object ends after the listed elements: None, or an error. *)
Inductive dtail := TEnd | TErr (e : nat).

Inductive dscript :=
| DScalar (m : vmethod) (payload : N)     (* calls visitor.visit_m(payload) *)
| DSeq (hint : option N) (elems : list dscript) (tail : dtail) (post : option nat)
| DMap (hint : option N) (entries : list (dscript * dscript)) (tail : dtail) (post : option nat)
      (* post = the deserializer's own failure after the visitor returned (a
         missing closing bracket) *)
| DFail (e : nat).                        (* fails before calling the visitor *)

(* ---------- errors ---------- *)

(* Deserializer errors: a real one (by id), or the synthetic "translation
   failed" that xt creates with de::Error::custom. Deserializers may decorate
   an error passing through them (serde_json adds line/column); decoration
   keeps the identity, so it is not modelled. *)
Inductive derr := DE (id : nat) | DSyn.
Inductive serr := SE (id : nat) | SSyn.
Inductive esource := SrcDe | SrcSer.

(* ---------- the serializer automaton ---------- *)

Inductive scall :=
| CScalar (m : smethod) (payload : N)
| CSeq (hint : option N) | CElemPre | CElemPost | CSeqEnd
| CMap (hint : option N) | CKeyPre | CKeyPost | CValuePre | CValuePost | CMapEnd.

Record sstate := { counter : nat; calls : list scall (* newest first *) }.

Definition s0 : sstate := {| counter := 0; calls := [] |}.

Inductive tres (A : Type) := TOk (a : A) | TErrR (e : derr) | TPanic (site : nat).
Arguments TOk {A} a.
Arguments TErrR {A} e.
Arguments TPanic {A} site.

Section Transcode.
  (* Step n of the serializer fails with error id e when fails n = Some e. *)
  Variable fails : nat -> option nat.

  (* Use the pinned tree's serialize_with_seed (before the fix of D4)? *)
  Variable pinned_v0 : bool.

  Definition sstep (ss : sstate) (c : scall) : sstate * option nat :=
    ({| counter := S (counter ss); calls := c :: calls ss |}, fails (counter ss)).

  (* The registers of a State: (error, source). *)
  Definition regs (E : Type) := (option E * esource)%type.
  Definition regs0 {E} : regs E := (None, SrcDe).

  (* DeserializeSeed::deserialize for SeqSeed/KeySeed/ValueSeed on an element
     deserializer: Forwarder::new(el).serialize_with_seed(seed_state,
     |ser, x| ser.serialize_element/key/value(x)).  [run_el] is
     deserialize_any of the element's deserializer (Forwarder::serialize builds
     a fresh Visitor over the element serializer and calls it).  The collection
     serializer performs a step of its own before and after serializing the
     element. *)
  Definition element_with (run_el : sstate -> sstate * tres unit * regs serr)
             (pre post_ : scall) (ss : sstate) : sstate * tres unit * regs serr :=
    (* the collection serializer's own failure: the forwarder captured nothing *)
    let own_failure (ss : sstate) (se : nat) : sstate * tres unit * regs serr :=
      if pinned_v0 then (ss, TErrR DSyn, (Some (SE se), SrcDe))     (* copies the forwarder's default source *)
      else (ss, TErrR DSyn, (Some (SE se), SrcSer)) in
    match sstep ss pre with
    | (ss1, Some se) => own_failure ss1 se
    | (ss1, None) =>
        match run_el ss1 with
        | (ss2, TOk _, _) =>
            match sstep ss2 post_ with
            | (ss3, Some se) => own_failure ss3 se
            | (ss3, None) => (ss3, TOk tt, regs0)
            end
        | (ss2, TErrR de_err, (verr, vsrc)) =>
            (* forwarder.capture_error(visitor.source, de_err); the element's
               serialize returns the visitor's captured error or a synthetic
               one, which the collection serializer hands back unchanged;
               serialize_with_seed then records (forwarder.source, that error)
               in the seed and returns the forwarder's de_err *)
            let ser_err := match verr with Some e => e | None => SSyn end in
            (ss2, TErrR de_err, (Some ser_err, vsrc))
        | (ss2, TPanic s, r) => (ss2, TPanic s, r)
        end
    end.

  (* D::deserialize_any(&mut Visitor) for the deserializer described by the
     script: the Result it returns and the visitor's registers afterwards. *)
  Fixpoint de_any (sc : dscript) (ss : sstate) {struct sc} : sstate * tres unit * regs serr :=
    match sc with
    | DFail e => (ss, TErrR (DE e), regs0)
    | DScalar m payload =>
        (* forward_scalar: take_parent; use_serializer *)
        match sstep ss (CScalar (forward m) payload) with
        | (ss1, None) => (ss1, TOk tt, regs0)
        | (ss1, Some se) => (ss1, TErrR DSyn, (Some (SE se), SrcSer))
        end
    | DSeq hint elems tail post =>
        match sstep ss (CSeq hint) with
        | (ss1, Some se) => (ss1, TErrR DSyn, (Some (SE se), SrcSer))
        | (ss1, None) =>
            let fix loop (els : list dscript) (ss : sstate) {struct els}
              : sstate * tres unit * regs serr :=
              match els with
              | [] =>
                  match tail with
                  | TErr e => (ss, TErrR (DE e), regs0)   (* capture_child_error of an untouched seed *)
                  | TEnd => (ss, TOk tt, regs0)
                  end
              | el :: els' =>
                  match element_with (de_any el) CElemPre CElemPost ss with
                  | (ss', TOk _, _) => loop els' ss'
                  | (ss', TErrR de_err, seed) => (ss', TErrR de_err, seed)  (* capture_child_error(seed) *)
                  | (ss', TPanic s, seed) => (ss', TPanic s, seed)
                  end
              end in
            match loop elems ss1 with
            | (ss2, TOk _, _) =>
                match sstep ss2 CSeqEnd with
                | (ss3, Some se) => (ss3, TErrR DSyn, (Some (SE se), SrcSer))
                | (ss3, None) =>
                    match post with
                    | Some e => (ss3, TErrR (DE e), regs0)
                    | None => (ss3, TOk tt, regs0)
                    end
                end
            | other => other
            end
        end
    | DMap hint entries tail post =>
        match sstep ss (CMap hint) with
        | (ss1, Some se) => (ss1, TErrR DSyn, (Some (SE se), SrcSer))
        | (ss1, None) =>
            let fix loop (es : list (dscript * dscript)) (ss : sstate) {struct es}
              : sstate * tres unit * regs serr :=
              match es with
              | (k, v) :: es' =>
                  match element_with (de_any k) CKeyPre CKeyPost ss with
                  | (ss', TOk _, _) =>
                      match element_with (de_any v) CValuePre CValuePost ss' with
                      | (ss'', TOk _, _) => loop es' ss''
                      | other => other
                      end
                  | other => other
                  end
              | [] =>
                  match tail with
                  | TErr e => (ss, TErrR (DE e), regs0)
                  | TEnd => (ss, TOk tt, regs0)
                  end
              end in
            match loop entries ss1 with
            | (ss2, TOk _, _) =>
                match sstep ss2 CMapEnd with
                | (ss3, Some se) => (ss3, TErrR DSyn, (Some (SE se), SrcSer))
                | (ss3, None) =>
                    match post with
                    | Some e => (ss3, TErrR (DE e), regs0)
                    | None => (ss3, TOk tt, regs0)
                    end
                end
            | other => other
            end
        end
    end.

  Inductive terror := ErrSer (s : serr) (d : derr) | ErrDe (d : derr).

  Inductive toutcome := OutOk | OutErr (e : terror) | OutPanic (site : nat).

  (* transcode(ser, de) (stream.rs:58-71) *)
  Definition transcode (sc : dscript) : sstate * toutcome :=
    match de_any sc s0 with
    | (ss, TOk _, _) => (ss, OutOk)
    | (ss, TErrR de_err, (verr, SrcSer)) =>
        match verr with
        | Some se => (ss, OutErr (ErrSer se de_err))
        | None => (ss, OutPanic 67)                    (* .unwrap() on None at stream.rs:67 *)
        end
    | (ss, TErrR de_err, (_, SrcDe)) => (ss, OutErr (ErrDe de_err))
    | (ss, TPanic s, _) => (ss, OutPanic s)
    end.

  (* ---------- the specification: first fault wins ---------- *)

  Inductive fault := FDe (e : nat) | FSer (e : nat).

  Definition ideal_element_with (run_el : sstate -> sstate * option fault)
             (pre post_ : scall) (ss : sstate) : sstate * option fault :=
    match sstep ss pre with
    | (ss1, Some se) => (ss1, Some (FSer se))
    | (ss1, None) =>
        match run_el ss1 with
        | (ss2, None) =>
            match sstep ss2 post_ with
            | (ss3, Some se) => (ss3, Some (FSer se))
            | (ss3, None) => (ss3, None)
            end
        | other => other
        end
    end.

  (* The same traversal with both kinds of failure short-circuiting. *)
  Fixpoint ideal (sc : dscript) (ss : sstate) {struct sc} : sstate * option fault :=
    match sc with
    | DFail e => (ss, Some (FDe e))
    | DScalar m payload =>
        match sstep ss (CScalar (forward m) payload) with
        | (ss1, None) => (ss1, None)
        | (ss1, Some se) => (ss1, Some (FSer se))
        end
    | DSeq hint elems tail post =>
        match sstep ss (CSeq hint) with
        | (ss1, Some se) => (ss1, Some (FSer se))
        | (ss1, None) =>
            let fix loop (els : list dscript) (ss : sstate) {struct els} : sstate * option fault :=
              match els with
              | [] => match tail with TErr e => (ss, Some (FDe e)) | TEnd => (ss, None) end
              | el :: els' =>
                  match ideal_element_with (ideal el) CElemPre CElemPost ss with
                  | (ss', None) => loop els' ss'
                  | other => other
                  end
              end in
            match loop elems ss1 with
            | (ss2, None) =>
                match sstep ss2 CSeqEnd with
                | (ss3, Some se) => (ss3, Some (FSer se))
                | (ss3, None) => (ss3, match post with Some e => Some (FDe e) | None => None end)
                end
            | other => other
            end
        end
    | DMap hint entries tail post =>
        match sstep ss (CMap hint) with
        | (ss1, Some se) => (ss1, Some (FSer se))
        | (ss1, None) =>
            let fix loop (es : list (dscript * dscript)) (ss : sstate) {struct es} : sstate * option fault :=
              match es with
              | (k, v) :: es' =>
                  match ideal_element_with (ideal k) CKeyPre CKeyPost ss with
                  | (ss', None) =>
                      match ideal_element_with (ideal v) CValuePre CValuePost ss' with
                      | (ss'', None) => loop es' ss''
                      | other => other
                      end
                  | other => other
                  end
              | [] => match tail with TErr e => (ss, Some (FDe e)) | TEnd => (ss, None) end
              end in
            match loop entries ss1 with
            | (ss2, None) =>
                match sstep ss2 CMapEnd with
                | (ss3, Some se) => (ss3, Some (FSer se))
                | (ss3, None) => (ss3, match post with Some e => Some (FDe e) | None => None end)
                end
            | other => other
            end
        end
    end.

  Definition first_fault (sc : dscript) : sstate * option fault := ideal sc s0.

  (* What the property demands of the outcome for a given first fault. *)
  Definition attributed (f : option fault) (o : toutcome) : Prop :=
    match f with
    | None => o = OutOk
    | Some (FDe e) => o = OutErr (ErrDe (DE e))
    | Some (FSer s) => exists d, o = OutErr (ErrSer (SE s) d)
    end.
End Transcode.

(* Error::Display (stream.rs:94-105): a deserializer-side failure shows the
   deserializer's error; a serializer-side failure shows "<de>: <ser>".  As
   "which real error ids does the text contain": *)
Definition display_ids (e : terror) : list (bool * nat) :=   (* (is_ser, id) *)
  match e with
  | ErrDe (DE d) => [(false, d)]
  | ErrDe DSyn => []
  | ErrSer s d =>
      (match d with DE i => [(false, i)] | DSyn => [] end) ++
      (match s with SE i => [(true, i)] | SSyn => [] end)
  end.

(* Does the text mention xt's synthetic "translation failed" message? *)
Definition display_mentions_synthetic (e : terror) : bool :=
  match e with
  | ErrDe DSyn => true
  | ErrDe (DE _) => false
  | ErrSer s d => match d with DSyn => true | _ => false end || match s with SSyn => true | _ => false end
  end.
