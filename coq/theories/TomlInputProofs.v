(* TomlInputProofs.v — src/toml.rs `transcode`: the handle is turned into one
   owned byte string (`Cow`), checked as UTF-8 and given to the TOML parser.
   Whatever that parser and everything after it compute from the text, they
   compute it from the same text in both supply modes: after any detection, with
   any read schedule, a reader handle over [d] and a slice handle over [d] both
   yield exactly [d].  So for TOML input the result is independent of the supply
   mode with no premise about the toml crate at all (a parser is a function of
   its input text). *)
From XtModel Require Import Base InputModel InputProofs FormatsModel DetectModel DetectProofs SelfDetectProofs.

(* toml::transcode from the point where the handle is given up: [parse] is the
   UTF-8 check, the toml crate's parser and the output's serializer together;
   [io] what becomes of an I/O error met while collecting the input *)
Definition toml_transcode {R : Type} (parse : bytes -> R) (io : ioerr -> R) (h : handle) : R :=
  match into_cow h with
  | Ok b => parse b
  | Err e => io e
  end.

Lemma detect_slice_state sched cutoff toml_parses d tm tj ty :
  fst (detect sched cutoff toml_parses tm tj ty (start (HSlice d))) = (HSlice d, RSlice d).
Proof.
  unfold detect, start. cbn [borrow_mut].
  rewrite run_trial_slice. destruct (slice_verdict d tm) as [[|]|e]; try reflexivity.
  rewrite run_trial_slice. destruct (slice_verdict d tj) as [[|]|e]; try reflexivity.
  rewrite run_trial_slice. destruct (slice_verdict d ty) as [[|]|e]; try reflexivity.
  rewrite toml_trial_slice. destruct (toml_parses d); reflexivity.
Qed.

Theorem toml_same_text_both_modes {R : Type} (parse : bytes -> R) (io : ioerr -> R)
        (sched : nat -> nat) (cutoff : nat) (toml_parses : bytes -> bool) (tm tj ty : trial) (d : bytes) :
  toml_transcode parse io (fst (fst (detect_reader sched cutoff toml_parses tm tj ty d None))) = parse d /\
  toml_transcode parse io (fst (fst (detect sched cutoff toml_parses tm tj ty (start (HSlice d))))) = parse d /\
  toml_transcode parse io (from_reader d None) = parse d /\
  toml_transcode parse io (HSlice d) = parse d.
Proof.
  split; [|split; [|split]].
  - pose proof (detect_then_own sched cutoff toml_parses tm tj ty d None FinCow) as H.
    unfold toml_transcode. cbn [finish] in H.
    destruct (into_cow (fst (fst (detect_reader sched cutoff toml_parses tm tj ty d None)))) as [b|e]; cbn [final_ok] in H.
    + destruct H as [-> _]. reflexivity.
    + destruct H as (k & Hk & _). discriminate.
  - rewrite detect_slice_state. reflexivity.
  - pose proof (reader_transparent sched d None [] FinCow) as H. unfold run_reader in H.
    destruct (run sched (start (from_reader d None)) []) as [st os] eqn:E. cbn [run] in E. inversion E; subst.
    specialize (H _ _ eq_refl). destruct H as (_ & H). cbn [finish] in H. unfold toml_transcode.
    unfold start in H. cbn [borrow_mut from_reader fst] in H.
    destruct (into_cow _) as [b|e]; cbn [final_ok] in H.
    + destruct H as [-> _]. reflexivity.
    + destruct H as (k & Hk & _). discriminate.
  - reflexivity.
Qed.
