(* JsonWriteProofs.v — serde_json's reader reads back what its compact writer
   wrote: for every value JSON can carry (integers of 64 bits, UTF-8 strings of
   any content, arrays and string-keyed objects of any size, nesting below the
   recursion limit; floats under the stated contract on their spelling) the
   reader model, run on the writer model's text followed by anything that can
   follow a value, yields exactly the value's events and leaves what followed. *)
From XtModel Require Import Base Utf8 Utf8Proofs MsgpackModel JsonModel JsonProofs JsonUtf8Proofs JsonWriteModel.
Require Import ZifyBool ZifyNat ZifyN.
Ltac Zify.zify_post_hook ::= Z.div_mod_to_equations.

(* ---------- decimal integers ---------- *)

Definition asc (ds : list N) : bytes := map (fun d => (48 + d)%N) ds.

Lemma digits_val_snoc ds d : digits_val (ds ++ [d]) = (digits_val ds * 10 + d)%N.
Proof. unfold digits_val. now rewrite fold_left_app. Qed.

Lemma log2_div10 n : (10 <= n)%N -> (N.log2 (n / 10) < N.log2 n)%N.
Proof.
  intros H. assert (Hm : (0 < n / 10)%N) by (apply N.div_str_pos; lia).
  assert (H2 : (2 * (n / 10) <= n)%N) by lia.
  pose proof (N.log2_le_mono _ _ H2) as Hl. rewrite N.log2_double in Hl by exact Hm. lia.
Qed.

Lemma to_digits_spec : forall fuel n acc, (N.to_nat (N.log2 n) < fuel) ->
  exists ds, to_digits fuel n acc = asc ds ++ acc /\ digits_val ds = n /\ Forall (fun d => (d < 10)%N) ds /\
             ds <> [] /\ (n <> 0%N -> hd 0%N ds <> 0%N) /\ (n = 0%N -> ds = [0%N]).
Proof.
  induction fuel as [|f IH]; intros n acc Hf; [lia|]. cbn [to_digits].
  destruct (n / 10 =? 0)%N eqn:E.
  - exists [(n mod 10)%N]. assert (Hlt : (n < 10)%N) by lia. replace (n mod 10)%N with n by lia.
    split; [reflexivity|]. split; [unfold digits_val; cbn [fold_left]; lia|].
    split; [constructor; [exact Hlt|constructor]|]. split; [discriminate|].
    split; [cbn [hd]; auto|intros ->; reflexivity].
  - assert (H10 : (10 <= n)%N) by lia. pose proof (log2_div10 n H10) as Hl.
    destruct (IH (n / 10)%N ((48 + n mod 10)%N :: acc) ltac:(lia)) as (ds & E1 & V & F & NE & HD & _).
    exists (ds ++ [(n mod 10)%N]). rewrite E1. unfold asc. rewrite map_app, <- app_assoc. cbn [map app].
    split; [reflexivity|]. split; [rewrite digits_val_snoc, V; lia|].
    split; [apply Forall_app; split; [exact F|constructor; [lia|constructor]]|].
    split; [destruct ds; discriminate|]. split; [|intros ->; cbn in H10; lia].
    intros _. destruct ds as [|d ds']; [congruence|]. cbn [hd app]. apply HD. lia.
Qed.

Lemma to_dec_spec n :
  exists ds, to_dec n = asc ds /\ digits_val ds = n /\ Forall (fun d => (d < 10)%N) ds /\
             ds <> [] /\ (n <> 0%N -> hd 0%N ds <> 0%N) /\ (n = 0%N -> ds = [0%N]).
Proof.
  unfold to_dec. destruct (to_digits_spec (S (N.to_nat (N.log2 n))) n [] ltac:(lia)) as (ds & E & R).
  exists ds. now rewrite E, app_nil_r.
Qed.

(* what may follow a number *)
Definition num_end (tail : bytes) : Prop :=
  match tail with [] => True | c :: _ => is_digit c = false /\ (c =? 46)%N = false /\ is_e c = false end.

Lemma take_digits_asc ds tail : Forall (fun d => (d < 10)%N) ds -> num_end tail ->
  take_digits (asc ds ++ tail) = (ds, tail).
Proof.
  intros F Ht. induction F as [|d ds Hd F IH]; cbn [asc map app].
  - destruct tail as [|c r]; [reflexivity|]. cbn [take_digits]. destruct Ht as (H1 & _). now rewrite H1.
  - cbn [take_digits]. assert (Hdig : is_digit (48 + d) = true) by (unfold is_digit; lia). rewrite Hdig.
    fold (asc ds). rewrite IH. f_equal. f_equal. lia.
Qed.

Lemma after_int_plain p ds tail : num_end tail -> after_int p ds tail = int_ev p ds tail.
Proof.
  intros Ht. unfold after_int. destruct tail as [|b r]; [reflexivity|]. destruct Ht as (_ & H2 & H3). now rewrite H2, H3.
Qed.

(* a non-negative integer literal reads back as itself *)
Lemma parse_number_uint n tail : (n <= u64_max)%N -> num_end tail ->
  parse_number true (to_dec n ++ tail) = ([EUInt 64 n], JOk tail).
Proof.
  intros Hn Ht. destruct (to_dec_spec n) as (ds & E & V & F & NE & HD & Z0). rewrite E.
  destruct (N.eq_dec n 0) as [->|Hnz].
  - rewrite (Z0 eq_refl). cbn [asc map app]. unfold parse_number. change (48 + 0 =? 48)%N with true. cbv beta iota.
    destruct tail as [|d r].
    + rewrite after_int_plain by exact I. reflexivity.
    + destruct Ht as (H1 & H2 & H3). rewrite H1. rewrite after_int_plain by (cbn; auto). reflexivity.
  - destruct ds as [|d ds']; [congruence|]. specialize (HD Hnz). cbn [hd] in HD.
    inversion F as [|? ? Hd F']; subst.
    pose proof (take_digits_asc (d :: ds') tail F Ht) as Htd.
    cbn [asc map app] in *. unfold parse_number.
    destruct (48 + d =? 48)%N eqn:E0; [lia|].
    assert (Hdig : is_digit (48 + d) = true) by (unfold is_digit; lia). rewrite Hdig.
    fold (asc ds') in *. rewrite Htd. rewrite after_int_plain by exact Ht.
    unfold int_ev. destruct (digits_val (d :: ds') <=? u64_max)%N eqn:E1; [reflexivity|lia].
Qed.

(* a negative integer literal (after its minus sign) reads back as itself *)
Lemma parse_number_negint m tail : (1 <= m <= sign_bit)%N -> num_end tail ->
  parse_number false (to_dec m ++ tail) = ([ESInt 64 (- Z.of_N m)%Z], JOk tail).
Proof.
  intros Hm Ht. destruct (to_dec_spec m) as (ds & E & V & F & NE & HD & Z0). rewrite E.
  destruct ds as [|d ds']; [congruence|]. specialize (HD ltac:(lia)). cbn [hd] in HD.
  inversion F as [|? ? Hd F']; subst.
  pose proof (take_digits_asc (d :: ds') tail F Ht) as Htd.
  cbn [asc map app] in *. unfold parse_number.
  destruct (48 + d =? 48)%N eqn:E0; [lia|].
  assert (Hdig : is_digit (48 + d) = true) by (unfold is_digit; lia). rewrite Hdig.
  fold (asc ds') in *. rewrite Htd. rewrite after_int_plain by exact Ht.
  unfold int_ev. destruct (digits_val (d :: ds') =? 0)%N eqn:E1; [lia|].
  destruct (digits_val (d :: ds') <=? sign_bit)%N eqn:E2; [reflexivity|lia].
Qed.

Lemma to_dec_head n : exists c r, to_dec n = c :: r /\ is_digit c = true.
Proof.
  destruct (to_dec_spec n) as (ds & E & V & F & NE & _). destruct ds as [|d ds']; [congruence|].
  inversion F; subst. exists (48 + d)%N, (asc ds'). split; [now rewrite E|]. unfold is_digit. lia.
Qed.

(* ---------- strings ---------- *)

Lemma hexval_hexdig d : (d < 16)%N -> hexval (hexdig d) = Some d.
Proof.
  intros H. unfold hexdig, hexval, is_digit. destruct (d <? 10)%N eqn:E.
  - destruct ((48 <=? 48 + d) && (48 + d <=? 57))%N eqn:A; [f_equal; lia|lia].
  - destruct ((48 <=? 87 + d) && (87 + d <=? 57))%N eqn:A; [lia|].
    destruct ((97 <=? 87 + d) && (87 + d <=? 102))%N eqn:B; [f_equal; lia|lia].
Qed.

Lemma hex4_control b rest : (b < 32)%N ->
  hex4 (48 :: 48 :: hexdig (b / 16) :: hexdig (b mod 16) :: rest)%N = HexOk b rest.
Proof.
  intros H. unfold hex4. change (hexval 48) with (Some 0%N).
  rewrite !hexval_hexdig by lia. f_equal. lia.
Qed.

(* the reader undoes the writer's escaping: the decoded text is the original *)
Lemma parse_escaped : forall s tail acc f, length (jescape s) < f ->
  utf8_valid (rev acc ++ s) = true ->
  parse_str f (jescape s ++ 34%N :: tail) acc = (Some (rev acc ++ s), JOk tail).
Proof.
  induction s as [|b s IH]; intros tail acc f Hf Hu.
  - destruct f as [|f]; [cbn in Hf; lia|]. cbn [jescape flat_map app parse_str]. change (34 =? 34)%N with true. cbv beta iota.
    rewrite app_nil_r in *. now rewrite Hu.
  - assert (Hstep : forall f', length (jescape s) < f' ->
              parse_str f' (jescape s ++ 34%N :: tail) (b :: acc) = (Some (rev acc ++ b :: s), JOk tail)).
    { intros f' Hf'. rewrite (IH tail (b :: acc) f' Hf'); cbn [rev]; rewrite <- app_assoc; [reflexivity|exact Hu]. }
    unfold jescape in *. cbn [flat_map] in *. fold (jescape s) in *. rewrite app_length in Hf.
    unfold escape_byte in *.
    destruct (b =? 34)%N eqn:E1.
    { destruct f as [|f]; [cbn in Hf; lia|]. cbn [app parse_str length] in *. change (92 =? 34)%N with false. change (92 =? 92)%N with true.
      cbv beta iota. change (simple_escape 34) with (Some 34%N). cbv beta iota. replace b with 34%N in * by lia. apply Hstep. lia. }
    destruct (b =? 92)%N eqn:E2.
    { destruct f as [|f]; [cbn in Hf; lia|]. cbn [app parse_str length] in *. change (92 =? 34)%N with false. change (92 =? 92)%N with true.
      cbv beta iota. change (simple_escape 92) with (Some 92%N). cbv beta iota. replace b with 92%N in * by lia. apply Hstep. lia. }
    destruct (b =? 8)%N eqn:E3.
    { destruct f as [|f]; [cbn in Hf; lia|]. cbn [app parse_str length] in *. change (92 =? 34)%N with false. change (92 =? 92)%N with true.
      cbv beta iota. change (simple_escape 98) with (Some 8%N). cbv beta iota. replace b with 8%N in * by lia. apply Hstep. lia. }
    destruct (b =? 12)%N eqn:E4.
    { destruct f as [|f]; [cbn in Hf; lia|]. cbn [app parse_str length] in *. change (92 =? 34)%N with false. change (92 =? 92)%N with true.
      cbv beta iota. change (simple_escape 102) with (Some 12%N). cbv beta iota. replace b with 12%N in * by lia. apply Hstep. lia. }
    destruct (b =? 10)%N eqn:E5.
    { destruct f as [|f]; [cbn in Hf; lia|]. cbn [app parse_str length] in *. change (92 =? 34)%N with false. change (92 =? 92)%N with true.
      cbv beta iota. change (simple_escape 110) with (Some 10%N). cbv beta iota. replace b with 10%N in * by lia. apply Hstep. lia. }
    destruct (b =? 13)%N eqn:E6.
    { destruct f as [|f]; [cbn in Hf; lia|]. cbn [app parse_str length] in *. change (92 =? 34)%N with false. change (92 =? 92)%N with true.
      cbv beta iota. change (simple_escape 114) with (Some 13%N). cbv beta iota. replace b with 13%N in * by lia. apply Hstep. lia. }
    destruct (b =? 9)%N eqn:E7.
    { destruct f as [|f]; [cbn in Hf; lia|]. cbn [app parse_str length] in *. change (92 =? 34)%N with false. change (92 =? 92)%N with true.
      cbv beta iota. change (simple_escape 116) with (Some 9%N). cbv beta iota. replace b with 9%N in * by lia. apply Hstep. lia. }
    destruct (b <? 32)%N eqn:E8.
    { destruct f as [|f]; [cbn in Hf; lia|]. cbn [app parse_str length] in *. change (92 =? 34)%N with false. change (92 =? 92)%N with true.
      cbv beta iota. change (simple_escape 117) with (@None N). cbv beta iota. change (117 =? 117)%N with true. cbv beta iota.
      rewrite hex4_control by lia.
      assert (Ht : is_trail b = false) by (unfold is_trail; lia). assert (Hl : is_lead b = false) by (unfold is_lead; lia).
      rewrite Ht, Hl. cbn [negb]. unfold utf8_encode. destruct (b <? 128)%N eqn:E9; [|lia]. cbn [rev app]. apply Hstep. lia. }
    destruct f as [|f]; [cbn in Hf; lia|]. cbn [app parse_str length] in *. rewrite E1, E2, E8. apply Hstep. lia.
Qed.

Lemma parse_jstring s tail : utf8_valid s = true ->
  parse_string (jescape s ++ 34%N :: tail) = (Some s, JOk tail).
Proof.
  intros Hu. unfold parse_string. rewrite (parse_escaped s tail []); [reflexivity| |exact Hu].
  rewrite app_length. cbn [length]. lia.
Qed.

(* ---------- values ---------- *)

(* what may follow a value inside a document or at its end *)
Definition val_end (tail : bytes) : Prop :=
  match tail with [] => True | c :: _ => ((c =? 44) || (c =? 93) || (c =? 125) || is_ws c)%N = true end.

Lemma val_end_num tail : val_end tail -> num_end tail.
Proof. destruct tail as [|c r]; [auto|]. unfold val_end, num_end, is_ws, is_digit, is_e. lia. Qed.

Lemma parse_ident_self e tail : parse_ident e (e ++ tail) = JOk tail.
Proof. induction e as [|x e IH]; [reflexivity|]. cbn [app parse_ident]. now rewrite N.eqb_refl. Qed.

(* the dispatch of parse_value on the first byte of a value *)
Lemma pv_null f depth r : parse_value (S f) depth (110%N :: r) = lit (parse_ident [117; 108; 108]%N r) EUnit.
Proof. reflexivity. Qed.
Lemma pv_true f depth r : parse_value (S f) depth (116%N :: r) = lit (parse_ident [114; 117; 101]%N r) (EBool true).
Proof. reflexivity. Qed.
Lemma pv_false f depth r : parse_value (S f) depth (102%N :: r) = lit (parse_ident [97; 108; 115; 101]%N r) (EBool false).
Proof. reflexivity. Qed.
Lemma pv_minus f depth r : parse_value (S f) depth (45%N :: r) = parse_number false r.
Proof. reflexivity. Qed.
Lemma pv_quote f depth r :
  parse_value (S f) depth (34%N :: r) =
    match parse_string r with
    | (Some s, JOk rest) => ([EStr s], JOk rest)
    | (_, JErr e) => ([], JErr e)
    | (None, JOk _) => ([], JErr JSyntax)
    end.
Proof. reflexivity. Qed.
Lemma pv_array f depth r :
  parse_value (S f) depth (91%N :: r) =
    if depth - 1 =? 0 then ([], JErr JDepth)
    else match parse_elems f (depth - 1) r true with
         | (evs, n, JOk rest) => (ESeq n :: evs ++ [ESeqEnd], JOk rest)
         | (_, _, JErr e) => ([], JErr e)
         end.
Proof. reflexivity. Qed.
Lemma pv_object f depth r :
  parse_value (S f) depth (123%N :: r) =
    if depth - 1 =? 0 then ([], JErr JDepth)
    else match parse_members f (depth - 1) r true with
         | (evs, n, JOk rest) => (EMap n :: evs ++ [EMapEnd], JOk rest)
         | (_, _, JErr e) => ([], JErr e)
         end.
Proof. reflexivity. Qed.
Lemma pv_digit f depth c r : is_digit c = true -> parse_value (S f) depth (c :: r) = parse_number true (c :: r).
Proof.
  intros H. assert (Hc : (48 <= c <= 57)%N) by (unfold is_digit in H; lia).
  cbn [parse_value skip_ws]. assert (W : is_ws c = false) by (unfold is_ws; lia). rewrite W.
  destruct (c =? 110)%N eqn:E1; [lia|]. destruct (c =? 116)%N eqn:E2; [lia|]. destruct (c =? 102)%N eqn:E3; [lia|].
  destruct (c =? 45)%N eqn:E4; [lia|]. now rewrite H.
Qed.

Section ReadBack.
  Variable fmt_f64 : N -> bytes.
  Variable float_ok : N -> bool.
  (* the contract on ryu's spelling of a finite float, at the level of the reader model *)
  Hypothesis fmt_reads : forall b, float_ok b = true -> forall f depth tail, val_end tail ->
    parse_value (S f) depth (fmt_f64 b ++ tail) = ([EF64 b], JOk tail).
  Hypothesis fmt_head : forall b, float_ok b = true ->
    exists c r, fmt_f64 b = c :: r /\ is_ws c = false /\ (c =? 93)%N = false /\ (c =? 125)%N = false /\ (c =? 44)%N = false.

  Notation jwrite := (jwrite fmt_f64).

  Fixpoint jwf (v : jval) : bool :=
    match v with
    | JNull | JBool _ => true
    | JUInt n => (n <=? u64_max)%N
    | JNegInt z => ((- 9223372036854775808 <=? z) && (z <? 0))%Z
    | JFloat b => float_ok b
    | JStr s => utf8_valid s
    | JArr vs => forallb jwf vs
    | JObj kvs => forallb (fun kv : bytes * jval => let (k, x) := kv in utf8_valid k && jwf x) kvs
    end.

  (* fuel the reader needs for a value *)
  Fixpoint need (v : jval) : nat :=
    match v with
    | JArr vs => 2 + length vs + fold_right (fun x a => Nat.max (need x) a) 0 vs
    | JObj kvs => 2 + length kvs + fold_right (fun (kv : bytes * jval) a => let (_, x) := kv in Nat.max (need x) a) 0 kvs
    | _ => 1
    end.

  Definition good_head (c : N) : Prop :=
    is_ws c = false /\ (c =? 93)%N = false /\ (c =? 125)%N = false /\ (c =? 44)%N = false.

  Lemma jwrite_head v : jwf v = true -> exists c r, jwrite v = c :: r /\ good_head c.
  Proof.
    unfold good_head. destruct v as [ |b|n|z|b|s|vs|kvs]; cbn [jwf JsonWriteModel.jwrite]; intros H.
    - eexists _, _. split; [reflexivity|]. repeat split.
    - destruct b; eexists _, _; (split; [reflexivity|]); repeat split.
    - destruct (to_dec_head n) as (c & r & E & D). exists c, r. split; [exact E|]. unfold is_digit, is_ws in *. lia.
    - eexists _, _. split; [reflexivity|]. repeat split.
    - destruct (fmt_head b H) as (c & r & E & A). exists c, r. now split.
    - eexists _, _. split; [reflexivity|]. repeat split.
    - eexists _, _. split; [reflexivity|]. repeat split.
    - eexists _, _. split; [reflexivity|]. repeat split.
  Qed.

  Lemma skip_ws_head c r : is_ws c = false -> skip_ws (c :: r) = c :: r.
  Proof. intros H. cbn [skip_ws]. now rewrite H. Qed.

  (* what follows the elements already read: the closing bracket, or a comma and the remaining elements *)
  Definition elems_tail (rest : list jval) (tail : bytes) : bytes :=
    match rest with
    | [] => 93%N :: tail
    | _ :: _ => 44%N :: join_comma (map jwrite rest) ++ 93%N :: tail
    end.

  Lemma join_elems v rest tail :
    join_comma (map jwrite (v :: rest)) ++ 93%N :: tail = jwrite v ++ elems_tail rest tail.
  Proof.
    cbn [map join_comma]. destruct rest as [|w rest']; cbn [map elems_tail]; [reflexivity|].
    rewrite <- app_assoc. reflexivity.
  Qed.

  Definition member_text (kv : bytes * jval) : bytes := let (k, x) := kv in jstring k ++ 58%N :: jwrite x.

  Definition members_tail (rest : list (bytes * jval)) (tail : bytes) : bytes :=
    match rest with
    | [] => 125%N :: tail
    | _ :: _ => 44%N :: join_comma (map member_text rest) ++ 125%N :: tail
    end.

  Lemma join_members k x rest tail :
    join_comma (map member_text ((k, x) :: rest)) ++ 125%N :: tail =
      34%N :: jescape k ++ 34%N :: 58%N :: jwrite x ++ members_tail rest tail.
  Proof.
    cbn [map join_comma member_text]. unfold jstring.
    destruct rest as [|w rest']; cbn [map members_tail app]; rewrite <- ?app_assoc; cbn [app]; rewrite <- ?app_assoc; reflexivity.
  Qed.

  Definition reads_back (v : jval) : Prop :=
    jwf v = true -> forall f depth tail, need v <= f -> jdepth v < depth -> val_end tail ->
      parse_value f depth (jwrite v ++ tail) = (jevs v, JOk tail).

  Lemma val_end_elems_tail rest tail : val_end (elems_tail rest tail).
  Proof. destruct rest; reflexivity. Qed.
  Lemma val_end_members_tail rest tail : val_end (members_tail rest tail).
  Proof. destruct rest; reflexivity. Qed.

  (* the elements after the first *)
  Lemma elems_read_back : forall rest m d tail f,
    Forall reads_back rest -> forallb jwf rest = true ->
    Forall (fun x => need x <= m /\ jdepth x < d) rest ->
    length rest + 1 + m <= f ->
    parse_elems f d (elems_tail rest tail) false = (flat_map jevs rest, lenL rest, JOk tail).
  Proof.
    induction rest as [|v rest IH]; intros m d tail f HR HW HB Hf.
    - destruct f as [|f]; [cbn in Hf; lia|]. reflexivity.
    - inversion HR as [|? ? Rv Rrest]; subst. inversion HB as [|? ? [Bn Bd] Brest]; subst.
      cbn [forallb] in HW. apply andb_true_iff in HW as [Wv Wrest].
      destruct f as [|f]; [cbn in Hf; lia|]. cbn [length] in Hf.
      destruct (jwrite_head v Wv) as (c & r & Ec & Hws & H93 & H125 & H44).
      rewrite parse_elems_unfold. unfold elems_tail at 1. rewrite join_elems, Ec. cbn [app].
      change (skip_ws (44%N :: c :: r ++ elems_tail rest tail)) with (44%N :: c :: r ++ elems_tail rest tail).
      change (44 =? 93)%N with false. change (44 =? 44)%N with true. cbv beta iota.
      rewrite skip_ws_head by exact Hws. rewrite H93. unfold element_of.
      change (c :: r ++ elems_tail rest tail) with ((c :: r) ++ elems_tail rest tail). rewrite <- Ec.
      rewrite (Rv Wv f d (elems_tail rest tail)) by (try lia; try apply val_end_elems_tail).
      rewrite (IH m d tail f Rrest Wrest Brest) by lia.
      change (44 =? 93)%N with false. change (44 =? 44)%N with true. cbv beta iota.
      cbn [flat_map]. unfold lenL. cbn [length]. f_equal. f_equal. lia.
  Qed.

  Lemma members_read_back : forall rest m d tail f,
    Forall (fun kv : bytes * jval => reads_back (snd kv)) rest ->
    forallb (fun kv : bytes * jval => let (k, x) := kv in utf8_valid k && jwf x) rest = true ->
    Forall (fun kv : bytes * jval => need (snd kv) <= m /\ jdepth (snd kv) < d) rest ->
    length rest + 1 + m <= f ->
    parse_members f d (members_tail rest tail) false =
      (flat_map (fun kv : bytes * jval => let (k, x) := kv in EStr k :: jevs x) rest, lenL rest, JOk tail).
  Proof.
    induction rest as [|[k x] rest IH]; intros m d tail f HR HW HB Hf.
    - destruct f as [|f]; [cbn in Hf; lia|]. reflexivity.
    - inversion HR as [|? ? Rv Rrest]; subst. inversion HB as [|? ? [Bn Bd] Brest]; subst. cbn [snd] in *.
      cbn [forallb] in HW. apply andb_true_iff in HW as [Wkx Wrest]. apply andb_true_iff in Wkx as [Wk Wx].
      destruct f as [|f]; [cbn in Hf; lia|]. cbn [length] in Hf.
      rewrite parse_members_unfold. unfold members_tail at 1. rewrite join_members.
      change (skip_ws (44%N :: 34%N :: jescape k ++ 34%N :: 58%N :: jwrite x ++ members_tail rest tail))
        with (44%N :: 34%N :: jescape k ++ 34%N :: 58%N :: jwrite x ++ members_tail rest tail).
      change (44 =? 125)%N with false. change (44 =? 44)%N with true. cbv beta iota.
      change (skip_ws (34%N :: jescape k ++ 34%N :: 58%N :: jwrite x ++ members_tail rest tail))
        with (34%N :: jescape k ++ 34%N :: 58%N :: jwrite x ++ members_tail rest tail).
      change (34 =? 34)%N with true. cbv beta iota. unfold member_of.
      rewrite parse_jstring by exact Wk.
      change (skip_ws (58%N :: jwrite x ++ members_tail rest tail)) with (58%N :: jwrite x ++ members_tail rest tail).
      change (58 =? 58)%N with true. cbv beta iota.
      rewrite (Rv Wx f d (members_tail rest tail)) by (try lia; try apply val_end_members_tail).
      rewrite (IH m d tail f Rrest Wrest Brest) by lia.
      change (44 =? 125)%N with false. change (44 =? 44)%N with true. change (34 =? 34)%N with true. change (58 =? 58)%N with true. cbv beta iota.
      cbn [flat_map app]. unfold lenL. cbn [length]. f_equal. f_equal. lia.
  Qed.

  (* ---------- induction over values ---------- *)

  Lemma jval_ind2 (P : jval -> Prop) :
    P JNull -> (forall b, P (JBool b)) -> (forall n, P (JUInt n)) -> (forall z, P (JNegInt z)) ->
    (forall b, P (JFloat b)) -> (forall s, P (JStr s)) ->
    (forall vs, Forall P vs -> P (JArr vs)) ->
    (forall kvs, Forall (fun kv : bytes * jval => P (snd kv)) kvs -> P (JObj kvs)) ->
    forall v, P v.
  Proof.
    intros H1 H2 H3 H4 H5 H6 Harr Hobj. fix IH 1. intros [ |b|n|z|b|s|vs|kvs].
    - exact H1.
    - apply H2.
    - apply H3.
    - apply H4.
    - apply H5.
    - apply H6.
    - apply Harr. induction vs as [|v vs IHvs]; constructor; [apply IH|exact IHvs].
    - apply Hobj. induction kvs as [|[k x] kvs IHk]; constructor; [apply IH|exact IHk].
  Qed.

  Lemma fold_max_bound {A} (g : A -> nat) (l : list A) x : In x l -> g x <= fold_right (fun y a => Nat.max (g y) a) 0 l.
  Proof. induction l as [|y l IH]; [contradiction|]. intros [->|Hin]; cbn [fold_right]; [lia|specialize (IH Hin); lia]. Qed.

  Theorem read_write : forall v, reads_back v.
  Proof.
    induction v as [ |b|n|z|b|s|vs IHvs|kvs IHkvs] using jval_ind2; unfold reads_back; intros Hwf f depth tail Hf Hd Ht;
      cbn [jwf need jdepth JsonWriteModel.jwrite jevs] in *.
    - destruct f as [|f]; [lia|]. cbn [app]. rewrite pv_null. reflexivity.
    - destruct f as [|f]; [lia|]. destruct b; cbn [app].
      + rewrite pv_true. reflexivity.
      + rewrite pv_false. reflexivity.
    - destruct f as [|f]; [lia|]. destruct (to_dec_head n) as (c & r & E & D).
      rewrite E. cbn [app]. rewrite pv_digit by exact D. change (c :: r ++ tail) with ((c :: r) ++ tail). rewrite <- E.
      apply parse_number_uint; [lia|now apply val_end_num].
    - destruct f as [|f]; [lia|]. cbn [app]. rewrite pv_minus.
      replace z with (- Z.of_N (Z.to_N (- z)))%Z at 2 by lia.
      apply parse_number_negint; [unfold sign_bit; lia|now apply val_end_num].
    - destruct f as [|f]; [lia|]. now apply fmt_reads.
    - destruct f as [|f]; [lia|]. unfold jstring. cbn [app]. rewrite <- app_assoc. cbn [app]. rewrite pv_quote.
      now rewrite parse_jstring.
    - destruct f as [|f]; [lia|]. cbn [app]. rewrite <- app_assoc. cbn [app]. rewrite pv_array.
      destruct (depth - 1 =? 0) eqn:E0; [lia|].
      set (m := fold_right (fun x a => Nat.max (need x) a) 0 vs) in *.
      assert (HB : Forall (fun x => need x <= m /\ jdepth x < depth - 1) vs).
      { apply Forall_forall. intros x Hx. split; [apply (fold_max_bound need vs x Hx)|].
        pose proof (fold_max_bound jdepth vs x Hx). lia. }
      destruct vs as [|v vs].
      + cbn [map join_comma app]. destruct f as [|f]; [cbn in Hf; lia|]. reflexivity.
      + inversion IHvs as [|? ? Rv Rrest]; subst. inversion HB as [|? ? [Bn Bd] Brest]; subst.
        cbn [forallb] in Hwf. apply andb_true_iff in Hwf as [Wv Wrest]. cbn [length] in Hf.
        rewrite join_elems. destruct f as [|f]; [lia|].
        destruct (jwrite_head v Wv) as (c & r & Ec & Hws & H93 & H125 & H44).
        rewrite parse_elems_unfold. rewrite Ec. cbn [app]. rewrite skip_ws_head by exact Hws. rewrite H93.
        unfold element_of. change (c :: r ++ elems_tail vs tail) with ((c :: r) ++ elems_tail vs tail). rewrite <- Ec.
        rewrite (Rv Wv f (depth - 1) (elems_tail vs tail)) by (try lia; try apply val_end_elems_tail).
        rewrite (elems_read_back vs m (depth - 1) tail f Rrest Wrest Brest) by lia.
        cbn [flat_map]. unfold lenL. cbn [length]. f_equal. f_equal. f_equal. lia.
    - destruct f as [|f]; [lia|]. cbn [app]. rewrite <- app_assoc. cbn [app]. rewrite pv_object.
      destruct (depth - 1 =? 0) eqn:E0; [lia|].
      fold member_text.
      set (m := fold_right (fun (kv : bytes * jval) a => let (_, x) := kv in Nat.max (need x) a) 0 kvs) in *.
      assert (Em : m = fold_right (fun (kv : bytes * jval) a => Nat.max (need (snd kv)) a) 0 kvs).
      { subst m. clear. induction kvs as [|[k x] kvs IH]; [reflexivity|]. cbn [fold_right snd]. now rewrite IH. }
      assert (Ed : fold_right (fun (kv : bytes * jval) acc => let (_, x) := kv in Nat.max (jdepth x) acc) 0 kvs =
                   fold_right (fun (kv : bytes * jval) a => Nat.max (jdepth (snd kv)) a) 0 kvs).
      { clear. induction kvs as [|[k x] kvs IH]; [reflexivity|]. cbn [fold_right snd]. now rewrite IH. }
      assert (HB : Forall (fun kv : bytes * jval => need (snd kv) <= m /\ jdepth (snd kv) < depth - 1) kvs).
      { apply Forall_forall. intros kv Hx. split.
        - rewrite Em. apply (fold_max_bound (fun kv : bytes * jval => need (snd kv)) kvs kv Hx).
        - pose proof (fold_max_bound (fun kv : bytes * jval => jdepth (snd kv)) kvs kv Hx). rewrite Ed in Hd. lia. }
      destruct kvs as [|[k x] kvs].
      + cbn [map join_comma app]. destruct f as [|f]; [cbn in Hf; lia|]. reflexivity.
      + inversion IHkvs as [|? ? Rv Rrest]; subst. inversion HB as [|? ? [Bn Bd] Brest]; subst. cbn [snd] in *.
        cbn [forallb] in Hwf. apply andb_true_iff in Hwf as [Wkx Wrest]. apply andb_true_iff in Wkx as [Wk Wx]. cbn [length] in Hf.
        rewrite join_members. destruct f as [|f]; [lia|].
        rewrite parse_members_unfold.
        change (skip_ws (34%N :: jescape k ++ 34%N :: 58%N :: jwrite x ++ members_tail kvs tail))
          with (34%N :: jescape k ++ 34%N :: 58%N :: jwrite x ++ members_tail kvs tail).
        change (34 =? 125)%N with false. change (34 =? 34)%N with true. cbv beta iota. unfold member_of.
        rewrite parse_jstring by exact Wk.
        change (skip_ws (58%N :: jwrite x ++ members_tail kvs tail)) with (58%N :: jwrite x ++ members_tail kvs tail).
        change (58 =? 58)%N with true. cbv beta iota.
        rewrite (Rv Wx f (depth - 1) (members_tail kvs tail)) by (try lia; try apply val_end_members_tail).
        rewrite (members_read_back kvs m (depth - 1) tail f Rrest Wrest Brest) by lia.
        change (34 =? 125)%N with false. change (34 =? 34)%N with true. change (58 =? 58)%N with true. cbv beta iota.
        cbn [flat_map app]. unfold lenL. cbn [length]. f_equal. f_equal. f_equal. lia.
  Qed.
End ReadBack.


(* ---------- one value with json_value's own fuel, and streams of documents ---------- *)

Section Streams.
  Variable fmt_f64 : N -> bytes.
  Variable float_ok : N -> bool.
  Hypothesis fmt_reads : forall b, float_ok b = true -> forall f depth tail, val_end tail ->
    parse_value (S f) depth (fmt_f64 b ++ tail) = ([EF64 b], JOk tail).
  Hypothesis fmt_head : forall b, float_ok b = true ->
    exists c r, fmt_f64 b = c :: r /\ is_ws c = false /\ (c =? 93)%N = false /\ (c =? 125)%N = false /\ (c =? 44)%N = false.

  Notation jwrite := (jwrite fmt_f64).
  Notation jwf := (jwf float_ok).

  (* a value serde_json can write and read back under its recursion limit *)
  Definition writable (v : jval) : Prop := jwf v = true /\ jdepth v < JSON_DEPTH.

  Theorem json_value_reads_back v tail : writable v -> val_end tail ->
    json_value (jwrite v ++ tail) = (jevs v, JOk tail).
  Proof.
    intros [Hw Hd] Ht. apply (json_value_any_fuel (need v)).
    exact (read_write fmt_f64 float_ok fmt_reads fmt_head v Hw (need v) JSON_DEPTH tail (le_n _) Hd Ht).
  Qed.

  Lemma docs_cons v vs : jwrite_docs fmt_f64 (v :: vs) = jwrite v ++ 10%N :: jwrite_docs fmt_f64 vs.
  Proof. unfold jwrite_docs. cbn [flat_map]. now rewrite <- app_assoc. Qed.

  Lemma reader_loop_newline f x : json_reader_loop f (10%N :: x) = json_reader_loop f x.
  Proof. destruct f; reflexivity. Qed.
  Lemma slice_loop_newline f x : json_slice_loop f (10%N :: x) = json_slice_loop f x.
  Proof. destruct f; reflexivity. Qed.

  Lemma reader_docs : forall vs f, Forall writable vs -> length vs < f ->
    json_reader_loop f (jwrite_docs fmt_f64 vs) = (map jevs vs, JDone).
  Proof.
    induction vs as [|v vs IH]; intros f Hall Hf.
    - destruct f as [|f]; [cbn in Hf; lia|]. reflexivity.
    - inversion Hall as [|? ? Hv Hvs]; subst. destruct f as [|f]; [lia|]. cbn [length] in Hf.
      rewrite docs_cons. destruct (jwrite_head fmt_f64 float_ok fmt_reads fmt_head v (proj1 Hv)) as (c & r & Ec & Hws & _).
      cbn [json_reader_loop]. rewrite Ec. cbn [app]. rewrite skip_ws_head by exact Hws.
      change (c :: r ++ 10%N :: jwrite_docs fmt_f64 vs) with ((c :: r) ++ 10%N :: jwrite_docs fmt_f64 vs). rewrite <- Ec.
      rewrite (json_value_reads_back v (10%N :: jwrite_docs fmt_f64 vs) Hv eq_refl).
      rewrite reader_loop_newline, (IH f Hvs) by lia. reflexivity.
  Qed.

  Lemma slice_docs : forall vs f, Forall writable vs -> length vs < f ->
    json_slice_loop f (jwrite_docs fmt_f64 vs) = (map jevs vs, JDone).
  Proof.
    induction vs as [|v vs IH]; intros f Hall Hf.
    - destruct f as [|f]; [cbn in Hf; lia|]. reflexivity.
    - inversion Hall as [|? ? Hv Hvs]; subst. destruct f as [|f]; [lia|]. cbn [length] in Hf.
      rewrite docs_cons. destruct (jwrite_head fmt_f64 float_ok fmt_reads fmt_head v (proj1 Hv)) as (c & r & Ec & Hws & _).
      cbn [json_slice_loop]. rewrite Ec. cbn [app]. rewrite skip_ws_head by exact Hws.
      change (c :: r ++ 10%N :: jwrite_docs fmt_f64 vs) with ((c :: r) ++ 10%N :: jwrite_docs fmt_f64 vs). rewrite <- Ec.
      rewrite (json_value_reads_back v (10%N :: jwrite_docs fmt_f64 vs) Hv eq_refl).
      change (is_delim 10) with true. destruct (self_delineated c); rewrite slice_loop_newline, (IH f Hvs) by lia; reflexivity.
  Qed.

  Lemma docs_length vs : Forall writable vs -> length vs <= length (jwrite_docs fmt_f64 vs).
  Proof.
    induction 1 as [|v vs Hv Hvs IH]; [cbn; lia|]. rewrite docs_cons, app_length. cbn [length]. lia.
  Qed.

  (* xt's JSON output - each document on its own line - is read back by the
     reader loop as exactly as many documents as were written, each with the
     events of the value it was written from *)
  Theorem json_reader_reads_docs vs : Forall writable vs ->
    json_reader (jwrite_docs fmt_f64 vs) = (map jevs vs, JDone).
  Proof. intros H. unfold json_reader. apply reader_docs; [exact H|]. pose proof (docs_length vs H). lia. Qed.

  (* and by the slice loop: the text is valid UTF-8 because the reader loop accepts it *)
  Theorem json_slice_reads_docs vs : Forall writable vs ->
    json_slice (jwrite_docs fmt_f64 vs) = (map jevs vs, JDone).
  Proof.
    intros H. unfold json_slice.
    assert (Hu : utf8_valid (jwrite_docs fmt_f64 vs) = true).
    { apply JsonUtf8Proofs.reader_ok_utf8. now rewrite (json_reader_reads_docs vs H). }
    rewrite Hu. apply slice_docs; [exact H|]. pose proof (docs_length vs H). lia.
  Qed.
End Streams.

(* the premises are satisfiable: a writer of floats that are never produced, and a nested document *)
Example json_read_back_nonvacuous :
  let v := JObj [([97], JArr [JUInt 1; JNegInt (-2); JStr [34; 10; 195; 169]; JNull; JBool true]); ([98], JObj [])]%N in
  jwf (fun _ => false) v = true /\ jdepth v < JSON_DEPTH /\
  json_value (jwrite (fun _ => []) v ++ [10%N]) = (jevs v, JOk [10%N]).
Proof. vm_compute. repeat split; lia. Qed.

(* ---------- one line per document ---------- *)

Section Lines.
  Variable fmt_f64 : N -> bytes.
  Hypothesis fmt_no_newline : forall b, ~ In 10%N (fmt_f64 b).
  Notation jwrite := (jwrite fmt_f64).

  Lemma to_dec_no_newline n : ~ In 10%N (to_dec n).
  Proof.
    destruct (to_dec_spec n) as (ds & E & _ & F & _). rewrite E. unfold asc. intros H.
    apply in_map_iff in H as (d & Hd & Hin). rewrite Forall_forall in F. specialize (F d Hin). lia.
  Qed.

  Lemma escape_no_newline b : ~ In 10%N (escape_byte b).
  Proof.
    unfold escape_byte, hexdig.
    destruct (b =? 34)%N eqn:E1; [cbn; lia|]. destruct (b =? 92)%N eqn:E2; [cbn; lia|].
    destruct (b =? 8)%N eqn:E3; [cbn; lia|]. destruct (b =? 12)%N eqn:E4; [cbn; lia|].
    destruct (b =? 10)%N eqn:E5; [cbn; lia|]. destruct (b =? 13)%N eqn:E6; [cbn; lia|].
    destruct (b =? 9)%N eqn:E7; [cbn; lia|].
    destruct (b <? 32)%N eqn:E8.
    - destruct (b / 16 <? 10)%N, (b mod 16 <? 10)%N; cbn [In]; lia.
    - cbn [In]. lia.
  Qed.

  Lemma jstring_no_newline s : ~ In 10%N (jstring s).
  Proof.
    unfold jstring, jescape. intros [H|H]; [lia|]. apply in_app_or in H as [H|[H|[]]]; [|lia].
    apply in_flat_map in H as (b & _ & Hb). exact (escape_no_newline b Hb).
  Qed.

  Lemma join_comma_no_newline (ps : list bytes) : Forall (fun p => ~ In 10%N p) ps -> ~ In 10%N (join_comma ps).
  Proof.
    induction 1 as [|p ps Hp Hps IH]; [cbn; tauto|]. destruct ps as [|q ps']; [exact Hp|].
    cbn [join_comma]. intros H. apply in_app_or in H as [H|[H|H]]; [exact (Hp H)|lia|exact (IH H)].
  Qed.

  (* a document never contains a raw line break: controls inside strings are escaped *)
  Theorem jwrite_no_newline : forall v, ~ In 10%N (jwrite v).
  Proof.
    induction v as [ |b|n|z|b|s|vs IHvs|kvs IHkvs] using jval_ind2; cbn [JsonWriteModel.jwrite].
    - cbn [In]. lia.
    - destruct b; cbn [In]; lia.
    - apply to_dec_no_newline.
    - intros [H|H]; [lia|exact (to_dec_no_newline _ H)].
    - apply fmt_no_newline.
    - apply jstring_no_newline.
    - intros [H|H]; [lia|]. apply in_app_or in H as [H|[H|[]]]; [|lia].
      revert H. apply join_comma_no_newline. rewrite Forall_map. exact IHvs.
    - intros [H|H]; [lia|]. apply in_app_or in H as [H|[H|[]]]; [|lia].
      revert H. apply join_comma_no_newline. rewrite Forall_map. rewrite Forall_forall in *. intros [k x] Hin.
      specialize (IHkvs (k, x) Hin). cbn [snd] in IHkvs. intros H. apply in_app_or in H as [H|[H|H]];
        [exact (jstring_no_newline k H)|lia|exact (IHkvs H)].
  Qed.

  (* so the stream xt writes for N documents has exactly N line breaks: one line per document *)
  Theorem one_line_per_document vs : count_occ N.eq_dec (jwrite_docs fmt_f64 vs) 10%N = length vs.
  Proof.
    induction vs as [|v vs IH]; [reflexivity|]. unfold jwrite_docs in *. cbn [flat_map length].
    rewrite count_occ_app, IH, count_occ_app. rewrite (proj1 (count_occ_not_In N.eq_dec (jwrite v) 10%N) (jwrite_no_newline v)).
    reflexivity.
  Qed.
End Lines.
