(* TranscodeProofs.v — the transcoder reports the side that failed first, with
   its original error, at any depth; it never panics; every scalar is forwarded
   to the serializer method of the same type. *)
From XtModel Require Import Base TranscodeModel.

(* ---------- an induction principle for the nested script type ---------- *)

Section ScriptInd.
  Variable P : dscript -> Prop.
  Hypothesis Hscalar : forall m p, P (DScalar m p).
  Hypothesis Hfail : forall e, P (DFail e).
  Hypothesis Hseq : forall h els t po, Forall P els -> P (DSeq h els t po).
  Hypothesis Hmap : forall h es t po,
      Forall (fun kv => P (fst kv) /\ P (snd kv)) es -> P (DMap h es t po).

  Fixpoint dscript_ind' (sc : dscript) : P sc :=
    match sc with
    | DScalar m p => Hscalar m p
    | DFail e => Hfail e
    | DSeq h els t po =>
        Hseq h els t po
          ((fix go (l : list dscript) : Forall P l :=
              match l with
              | [] => Forall_nil _
              | x :: l' => Forall_cons _ (dscript_ind' x) (go l')
              end) els)
    | DMap h es t po =>
        Hmap h es t po
          ((fix go (l : list (dscript * dscript)) : Forall (fun kv => P (fst kv) /\ P (snd kv)) l :=
              match l with
              | [] => Forall_nil _
              | kv :: l' =>
                  Forall_cons kv
                    (match kv as kv0 return P (fst kv0) /\ P (snd kv0) with
                     | (k, v) => conj (dscript_ind' k) (dscript_ind' v)
                     end) (go l')
              end) es)
    end.
End ScriptInd.

(* ---------- scalar forwarding keeps the type ---------- *)

Theorem forward_keeps_type : forall m, stag (forward m) = vtag m.
Proof. destruct m; reflexivity. Qed.

Theorem forward_injective : forall m m', forward m = forward m' -> m = m'.
Proof. destruct m, m'; cbn; intros H; try reflexivity; discriminate. Qed.

(* ---------- attribution ---------- *)

Section Attribution.
  Variable fails : nat -> option nat.

  (* The relation between the repaired transcoder and the first-fault
     specification, for one deserialize_any call. *)
  Definition agrees (real : sstate * tres unit * regs serr) (spec : sstate * option fault) : Prop :=
    let '(ss1, r, (verr, vsrc)) := real in
    let '(ss2, f) := spec in
    ss1 = ss2 /\
    match f with
    | None => r = TOk tt
    | Some (FDe e) => r = TErrR (DE e) /\ vsrc = SrcDe
    | Some (FSer s) => r = TErrR DSyn /\ vsrc = SrcSer /\ verr = Some (SE s)
    end.

  Definition script_ok (sc : dscript) : Prop :=
    forall ss, agrees (de_any fails false sc ss) (ideal fails sc ss).

  Lemma element_agrees run_el irun pre post_ :
    (forall ss, agrees (run_el ss) (irun ss)) ->
    forall ss, agrees (element_with fails false run_el pre post_ ss)
                      (ideal_element_with fails irun pre post_ ss).
  Proof.
    intros H ss. unfold element_with, ideal_element_with.
    destruct (sstep fails ss pre) as [ss1 [se|]].
    - cbn. auto.
    - specialize (H ss1). unfold agrees in H.
      destruct (run_el ss1) as [[ss2 r] [verr vsrc]]. destruct (irun ss1) as [ss2' f].
      destruct H as [<- H]. destruct f as [[e|s]|].
      + destruct H as [-> ->]. cbn. auto.
      + destruct H as (-> & -> & ->). cbn. auto.
      + subst r. destruct (sstep fails ss2 post_) as [ss3 [se|]]; cbn; auto.
  Qed.

  Lemma scalar_ok m p : script_ok (DScalar m p).
  Proof.
    intros ss. cbn [de_any ideal]. destruct (sstep fails ss (CScalar (forward m) p)) as [ss1 [se|]]; cbn; auto.
  Qed.

  Lemma fail_ok e : script_ok (DFail e).
  Proof. intros ss. cbn. auto. Qed.

  Lemma seq_ok h els t po : Forall script_ok els -> script_ok (DSeq h els t po).
  Proof.
    intros HF ss. cbn [de_any ideal].
    destruct (sstep fails ss (CSeq h)) as [ss1 [se|]]; [cbn; auto|].
    (* the element loop *)
    set (rloop := fix loop (els0 : list dscript) (ss0 : sstate) {struct els0}
                    : sstate * tres unit * regs serr :=
           match els0 with
           | [] => match t with
                   | TErr e => (ss0, TErrR (DE e), regs0)
                   | TEnd => (ss0, TOk tt, regs0)
                   end
           | el :: els' =>
               match element_with fails false (de_any fails false el) CElemPre CElemPost ss0 with
               | (ss', TOk _, _) => loop els' ss'
               | (ss', TErrR de_err, seed) => (ss', TErrR de_err, seed)
               | (ss', TPanic s, seed) => (ss', TPanic s, seed)
               end
           end).
    set (iloop := fix loop (els0 : list dscript) (ss0 : sstate) {struct els0} : sstate * option fault :=
           match els0 with
           | [] => match t with TErr e => (ss0, Some (FDe e)) | TEnd => (ss0, None) end
           | el :: els' =>
               match ideal_element_with fails (ideal fails el) CElemPre CElemPost ss0 with
               | (ss', None) => loop els' ss'
               | other => other
               end
           end).
    assert (HL : forall ss0, agrees (rloop els ss0) (iloop els ss0)).
    { induction HF as [|el els' Hel _ IH]; intros ss0; cbn [rloop iloop].
      - destruct t; cbn; auto.
      - pose proof (element_agrees _ _ CElemPre CElemPost Hel ss0) as HE. unfold agrees in HE.
        destruct (element_with fails false (de_any fails false el) CElemPre CElemPost ss0) as [[ss' r] [verr vsrc]].
        destruct (ideal_element_with fails (ideal fails el) CElemPre CElemPost ss0) as [ss'' f].
        destruct HE as [<- HE]. destruct f as [[e|s]|].
        + destruct HE as [-> ->]. cbn. auto.
        + destruct HE as (-> & -> & ->). cbn. auto.
        + subst r. apply IH. }
    specialize (HL ss1). unfold agrees in HL.
    destruct (rloop els ss1) as [[ss2 r] [verr vsrc]]. destruct (iloop els ss1) as [ss2' f].
    destruct HL as [<- HL]. destruct f as [[e|s]|].
    - destruct HL as [-> ->]. cbn. auto.
    - destruct HL as (-> & -> & ->). cbn. auto.
    - subst r. destruct (sstep fails ss2 CSeqEnd) as [ss3 [se|]]; [cbn; auto|].
      destruct po; cbn; auto.
  Qed.

  Lemma map_ok h es t po :
    Forall (fun kv => script_ok (fst kv) /\ script_ok (snd kv)) es -> script_ok (DMap h es t po).
  Proof.
    intros HF ss. cbn [de_any ideal].
    destruct (sstep fails ss (CMap h)) as [ss1 [se|]]; [cbn; auto|].
    set (rloop := fix loop (es0 : list (dscript * dscript)) (ss0 : sstate) {struct es0}
                    : sstate * tres unit * regs serr :=
           match es0 with
           | (k, v) :: es' =>
               match element_with fails false (de_any fails false k) CKeyPre CKeyPost ss0 with
               | (ss', TOk _, _) =>
                   match element_with fails false (de_any fails false v) CValuePre CValuePost ss' with
                   | (ss'', TOk _, _) => loop es' ss''
                   | other => other
                   end
               | other => other
               end
           | [] => match t with
                   | TErr e => (ss0, TErrR (DE e), regs0)
                   | TEnd => (ss0, TOk tt, regs0)
                   end
           end).
    set (iloop := fix loop (es0 : list (dscript * dscript)) (ss0 : sstate) {struct es0} : sstate * option fault :=
           match es0 with
           | (k, v) :: es' =>
               match ideal_element_with fails (ideal fails k) CKeyPre CKeyPost ss0 with
               | (ss', None) =>
                   match ideal_element_with fails (ideal fails v) CValuePre CValuePost ss' with
                   | (ss'', None) => loop es' ss''
                   | other => other
                   end
               | other => other
               end
           | [] => match t with TErr e => (ss0, Some (FDe e)) | TEnd => (ss0, None) end
           end).
    assert (HL : forall ss0, agrees (rloop es ss0) (iloop es ss0)).
    { induction HF as [|[k v] es' [Hk Hv] _ IH]; intros ss0; cbn [rloop iloop].
      - destruct t; cbn; auto.
      - cbn [fst snd] in Hk, Hv.
        pose proof (element_agrees _ _ CKeyPre CKeyPost Hk ss0) as HE. unfold agrees in HE.
        destruct (element_with fails false (de_any fails false k) CKeyPre CKeyPost ss0) as [[ss' r] [verr vsrc]].
        destruct (ideal_element_with fails (ideal fails k) CKeyPre CKeyPost ss0) as [ss'' f].
        destruct HE as [<- HE]. destruct f as [[e|s]|].
        + destruct HE as [-> ->]. cbn. auto.
        + destruct HE as (-> & -> & ->). cbn. auto.
        + subst r.
          pose proof (element_agrees _ _ CValuePre CValuePost Hv ss') as HE2. unfold agrees in HE2.
          destruct (element_with fails false (de_any fails false v) CValuePre CValuePost ss') as [[ss2 r2] [verr2 vsrc2]].
          destruct (ideal_element_with fails (ideal fails v) CValuePre CValuePost ss') as [ss2' f2].
          destruct HE2 as [<- HE2]. destruct f2 as [[e|s]|].
          * destruct HE2 as [-> ->]. cbn. auto.
          * destruct HE2 as (-> & -> & ->). cbn. auto.
          * subst r2. apply IH. }
    specialize (HL ss1). unfold agrees in HL.
    destruct (rloop es ss1) as [[ss2 r] [verr vsrc]]. destruct (iloop es ss1) as [ss2' f].
    destruct HL as [<- HL]. destruct f as [[e|s]|].
    - destruct HL as [-> ->]. cbn. auto.
    - destruct HL as (-> & -> & ->). cbn. auto.
    - subst r. destruct (sstep fails ss2 CMapEnd) as [ss3 [se|]]; [cbn; auto|].
      destruct po; cbn; auto.
  Qed.

  Lemma all_scripts_ok : forall sc, script_ok sc.
  Proof.
    apply dscript_ind'.
    - apply scalar_ok.
    - apply fail_ok.
    - apply seq_ok.
    - apply map_ok.
  Qed.

  (* The headline: whichever side fails first in execution order is the side
     reported, with its original error value; the serializer is driven through
     exactly the same calls as the specification says; no panic. *)
  Theorem transcode_attribution sc :
    fst (transcode fails false sc) = fst (first_fault fails sc) /\
    attributed (snd (first_fault fails sc)) (snd (transcode fails false sc)).
  Proof.
    unfold transcode, first_fault.
    pose proof (all_scripts_ok sc s0) as H. unfold agrees in H.
    destruct (de_any fails false sc s0) as [[ss1 r] [verr vsrc]].
    destruct (ideal fails sc s0) as [ss2 f].
    destruct H as [<- H]. destruct f as [[e|s]|]; cbn [fst snd attributed].
    - destruct H as [-> ->]. cbn. auto.
    - destruct H as (-> & -> & ->). cbn. split; [reflexivity|]. eexists; reflexivity.
    - subst r. cbn. auto.
  Qed.

  Theorem transcode_no_panic sc : forall site, snd (transcode fails false sc) <> OutPanic site.
  Proof.
    intros site. destruct (transcode_attribution sc) as [_ H].
    destruct (snd (first_fault fails sc)) as [[e|s]|]; cbn [attributed] in H.
    - rewrite H. discriminate.
    - destruct H as [d ->]. discriminate.
    - rewrite H. discriminate.
  Qed.
End Attribution.

(* Display: an input-side failure shows exactly the deserializer's error and
   never the synthetic text; an output-side failure contains the serializer's
   reason. *)
Theorem display_de fails sc e :
  snd (first_fault fails sc) = Some (FDe e) ->
  exists err, snd (transcode fails false sc) = OutErr err /\
              display_ids err = [(false, e)] /\ display_mentions_synthetic err = false.
Proof.
  intros H. destruct (transcode_attribution fails sc) as [_ Ha]. rewrite H in Ha. cbn in Ha.
  eexists. split; [exact Ha|]. split; reflexivity.
Qed.

Theorem display_ser fails sc s :
  snd (first_fault fails sc) = Some (FSer s) ->
  exists err, snd (transcode fails false sc) = OutErr err /\ In (true, s) (display_ids err).
Proof.
  intros H. destruct (transcode_attribution fails sc) as [_ Ha]. rewrite H in Ha. cbn in Ha.
  destruct Ha as [d Ha]. eexists. split; [exact Ha|]. cbn. apply in_or_app. right. left. reflexivity.
Qed.

(* The pinned tree's serialize_with_seed gets attribution wrong: a writer that
   fails on the separator after the first element of [1, 2]. *)
Definition d4_script : dscript :=
  DSeq None [DScalar VU64 1; DScalar VU64 2] TEnd None.
Definition d4_fails (n : nat) : option nat := if n =? 3 then Some 7 else None.

Theorem pinned_attribution_refuted :
  snd (first_fault d4_fails d4_script) = Some (FSer 7) /\
  snd (transcode d4_fails true d4_script) = OutErr (ErrDe DSyn) /\
  snd (transcode d4_fails false d4_script) = OutErr (ErrSer (SE 7) DSyn).
Proof. vm_compute. repeat split. Qed.
