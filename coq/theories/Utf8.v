(* Utf8.v — well-formed UTF-8 (Unicode Table 3-7), i.e. what Rust's
   str::from_utf8 accepts, and the UTF-8 encoding of a scalar value
   (char::encode_utf8). *)
From XtModel Require Import Base.

Definition in_range (lo hi b : N) : bool := ((lo <=? b) && (b <=? hi))%N.

(* Structural recursion with a little fuel trick-free formulation: consume one
   well-formed sequence at the head, recurse on the rest. *)
Fixpoint utf8_valid_fuel (fuel : nat) (bs : bytes) : bool :=
  match fuel with
  | O => match bs with [] => true | _ => false end
  | S f =>
      match bs with
      | [] => true
      | b0 :: r0 =>
          if (b0 <? 128)%N then utf8_valid_fuel f r0
          else if in_range 194 223 b0 then
            match r0 with
            | b1 :: r1 => in_range 128 191 b1 && utf8_valid_fuel f r1
            | _ => false
            end
          else if in_range 224 239 b0 then
            match r0 with
            | b1 :: b2 :: r2 =>
                (if (b0 =? 224)%N then in_range 160 191 b1
                 else if (b0 =? 237)%N then in_range 128 159 b1
                 else in_range 128 191 b1)
                && in_range 128 191 b2 && utf8_valid_fuel f r2
            | _ => false
            end
          else if in_range 240 244 b0 then
            match r0 with
            | b1 :: b2 :: b3 :: r3 =>
                (if (b0 =? 240)%N then in_range 144 191 b1
                 else if (b0 =? 244)%N then in_range 128 143 b1
                 else in_range 128 191 b1)
                && in_range 128 191 b2 && in_range 128 191 b3 && utf8_valid_fuel f r3
            | _ => false
            end
          else false
      end
  end.

Definition utf8_valid (bs : bytes) : bool := utf8_valid_fuel (length bs) bs.

(* A Unicode scalar value: 0..D7FF or E000..10FFFF. *)
Definition is_scalar (c : N) : bool :=
  ((c <? 55296) || ((57344 <=? c) && (c <=? 1114111)))%N.

(* char::encode_utf8 *)
Definition utf8_encode (c : N) : bytes :=
  if (c <? 128)%N then [c]
  else if (c <? 2048)%N then [192 + c / 64; 128 + c mod 64]%N
  else if (c <? 65536)%N then [224 + c / 4096; 128 + (c / 64) mod 64; 128 + c mod 64]%N
  else [240 + c / 262144; 128 + (c / 4096) mod 64; 128 + (c / 64) mod 64; 128 + c mod 64]%N.

Definition utf8_encode_all (cs : list N) : bytes := flat_map utf8_encode cs.
