(* UtfProofs.v — facts about the re-encoder model. *)
From XtModel Require Import Base Utf8 UtfModel.
Require Import ZifyBool ZifyNat ZifyN.
Ltac Zify.zify_post_hook ::= Z.div_mod_to_equations.

(* ---------- every char the decoders construct is a Unicode scalar value ---------- *)

Definition unit16_ok (u : N) : Prop := (u < 65536)%N.

Lemma decode_u16_ok bg a b : (a < 256)%N -> (b < 256)%N -> unit16_ok (decode_u16 bg a b).
Proof. unfold unit16_ok, decode_u16. destruct bg; lia. Qed.

Definition dstate_ok (d : dstate) : Prop :=
  Forall (fun b => (b < 256)%N) (rest d) /\
  match ubuf d with Some u => unit16_ok u | None => True end.

Lemma next_u16_ok d u d' :
  dstate_ok d -> next_u16 d = USome u d' ->
  unit16_ok u /\ Forall (fun b => (b < 256)%N) (rest d') /\ ubuf d' = ubuf d.
Proof.
  intros [Hr Hb]. unfold next_u16. destruct (rest d) as [|a [|b r]] eqn:E; try discriminate.
  intros [= <- <-]. inversion Hr as [|? ? Ha Hr']; subst. inversion Hr' as [|? ? Hb' Hr'']; subst.
  split; [now apply decode_u16_ok|]. split; [exact Hr''|reflexivity].
Qed.

(* The first from_u32_unchecked site (a non-surrogate unit) and the second (a
   surrogate pair) only ever see scalar values. *)
Theorem utf16_next_scalar d c d' :
  dstate_ok d -> utf16_next d = CSome c d' -> is_scalar c = true /\ dstate_ok d'.
Proof.
  intros Hd. unfold utf16_next.
  destruct (match ubuf d with
            | Some u => USome u (dstate_with d (rest d) (dpos d) None)
            | None => next_u16 d end) as [|e|lead d1] eqn:El; try discriminate.
  assert (Hl : unit16_ok lead /\ dstate_ok d1 /\ ubuf d1 = None).
  { destruct Hd as [Hr Hb]. destruct (ubuf d) as [u|] eqn:Eu.
    - inversion El; subst. split; [exact Hb|]. split; [split; [exact Hr|exact I]|reflexivity].
    - destruct (next_u16_ok d lead d1) as (H1 & H2 & H3); [split; [exact Hr|rewrite Eu; exact I]|exact El|].
      rewrite Eu in H3. split; [exact H1|]. split; [split; [exact H2|rewrite H3; exact I]|exact H3]. }
  destruct Hl as (Hlead & Hd1 & Hb1). unfold unit16_ok in Hlead.
  destruct ((lead <? 55296) || (57344 <=? lead))%N eqn:E1.
  - intros [= <- <-]. split; [|exact Hd1]. unfold is_scalar. lia.
  - destruct (56320 <=? lead)%N eqn:E2; [discriminate|].
    destruct (next_u16 d1) as [|e|trail d2] eqn:Et; try discriminate.
    destruct (next_u16_ok d1 trail d2 Hd1 Et) as (Htr & Hr2 & Hb2).
    destruct (negb ((56320 <=? trail) && (trail <=? 57343)))%N eqn:E3; [discriminate|].
    intros [= <- <-]. split.
    + unfold is_scalar, unit16_ok in *. lia.
    + split; [exact Hr2|]. rewrite Hb2, Hb1. exact I.
Qed.

Theorem utf32_next_scalar d c d' : utf32_next d = CSome c d' -> is_scalar c = true.
Proof.
  unfold utf32_next. destruct (rest d) as [|a [|b [|c0 [|e r]]]]; try discriminate.
  destruct (is_scalar (decode_u32 (big d) a b c0 e)) eqn:E; [|discriminate].
  now intros [= <- <-].
Qed.

(* ---------- surrogate pairing is exact ---------- *)

Theorem utf16_pair_roundtrip c :
  (65536 <= c <= 1114111)%N ->
  match utf16_units c with
  | [lead; trail] =>
      (55296 <= lead <= 56319)%N /\ (56320 <= trail <= 57343)%N /\
      (65536 + ((lead - 55296) * 1024 + (trail - 56320)) = c)%N
  | _ => False
  end.
Proof.
  intros H. unfold utf16_units. destruct (c <? 65536)%N eqn:E; [lia|]. lia.
Qed.

Theorem utf16_bmp_unit c : (c < 65536)%N -> utf16_units c = [c].
Proof. intros H. unfold utf16_units. destruct (c <? 65536)%N eqn:E; [reflexivity|lia]. Qed.

Theorem u16_bytes_roundtrip bg u :
  (u < 65536)%N ->
  match enc_u16 bg u with
  | [a; b] => (a < 256)%N /\ (b < 256)%N /\ decode_u16 bg a b = u
  | _ => False
  end.
Proof. intros H. unfold enc_u16, decode_u16. destruct bg; cbn; lia. Qed.

Theorem u32_bytes_roundtrip bg u :
  (u < 4294967296)%N ->
  match enc_u32 bg u with
  | [a; b; c; d] => (a < 256)%N /\ (b < 256)%N /\ (c < 256)%N /\ (d < 256)%N /\ decode_u32 bg a b c d = u
  | _ => False
  end.
Proof.
  intros H. unfold enc_u32, decode_u32.
  replace (u / 16777216)%N with (u / 256 / 256 / 256)%N by (rewrite !N.div_div by lia; reflexivity).
  replace (u / 65536)%N with (u / 256 / 256)%N by (rewrite N.div_div by lia; reflexivity).
  destruct bg; cbn; lia.
Qed.

(* ---------- detection (YAML 1.2 section 5.2) ---------- *)

(* A text "starts like YAML" when its first character is U+FEFF, or is ASCII
   and non-NUL and is followed by a non-NUL character. *)
Definition starts_ok (cs : list N) : Prop :=
  match cs with
  | c0 :: c1 :: _ =>
      (c0 = 65279 /\ (0 < c1 <= 1114111)%N /\ is_scalar c1 = true)%N \/
      ((0 < c0 < 128)%N /\ (0 < c1 <= 1114111)%N /\ is_scalar c1 = true)
  | _ => False
  end.

Lemma enc_u32_small bg c : (c < 256)%N -> enc_u32 bg c = if bg then [0; 0; 0; c]%N else [c; 0; 0; 0]%N.
Proof.
  intros H. unfold enc_u32.
  rewrite (N.div_small c 16777216), (N.div_small c 65536), (N.div_small c 256), (N.mod_small c 256) by lia.
  reflexivity.
Qed.

Theorem detect_utf32 bg cs :
  starts_ok cs -> detect (firstn 4 (utf32_encode bg cs)) = if bg then Utf32Big else Utf32Little.
Proof.
  destruct cs as [|c0 [|c1 r]]; try contradiction. intros H.
  unfold utf32_encode. cbn [flat_map].
  destruct H as [(-> & _)|(H0 & _)].
  - destruct bg; reflexivity.
  - rewrite (enc_u32_small bg c0) by lia.
    assert (E0 : (c0 =? 0)%N = false) by lia. assert (E5 : (c0 =? 255)%N = false) by lia.
    destruct bg; cbv beta iota delta [app firstn]; unfold detect, detect2, eq0; rewrite ?E0, ?E5; reflexivity.
Qed.

Lemma units_head c1 : (0 < c1 <= 1114111)%N -> exists u rest, utf16_units c1 = u :: rest /\ (0 < u < 65536)%N.
Proof.
  intros H. unfold utf16_units. destruct (c1 <? 65536)%N eqn:E; eexists; eexists; (split; [reflexivity|]); lia.
Qed.

Lemma enc_u16_nz bg u : (0 < u < 65536)%N ->
  exists x y, enc_u16 bg u = [x; y] /\ ((x =? 0) && (y =? 0))%N = false.
Proof.
  intros H. unfold enc_u16. destruct bg; eexists; eexists; (split; [reflexivity|]); lia.
Qed.

Theorem detect_utf16 bg cs :
  starts_ok cs -> detect (firstn 4 (utf16_encode bg cs)) = if bg then Utf16Big else Utf16Little.
Proof.
  destruct cs as [|c0 [|c1 r]]; try contradiction. intros H.
  unfold utf16_encode. cbn [flat_map].
  assert (Hc1 : (0 < c1 <= 1114111)%N) by (destruct H as [(_ & H1 & _)|(_ & H1 & _)]; exact H1).
  destruct (units_head c1 Hc1) as (u & urest & Eu & Hu). rewrite Eu. cbn [flat_map].
  destruct (enc_u16_nz bg u Hu) as (x & y & Exy & Hnz). rewrite Exy.
  assert (Hu0 : utf16_units c0 = [c0]).
  { unfold utf16_units. destruct (c0 <? 65536)%N eqn:E; [reflexivity|]. destruct H as [(-> & _)|(H0 & _)]; lia. }
  rewrite Hu0. cbn [flat_map]. rewrite app_nil_r.
  destruct (x =? 0)%N eqn:Ex; destruct (y =? 0)%N eqn:Ey; cbn [andb] in Hnz; try discriminate;
    (destruct H as [(-> & _)|(H0 & _)];
     [destruct bg; cbv beta iota delta [enc_u16 app firstn]; unfold detect, detect2, eq0;
      change (65279 mod 256)%N with 255%N; change (65279 / 256)%N with 254%N; rewrite ?Ex, ?Ey; reflexivity
     |unfold enc_u16; rewrite (N.div_small c0 256), (N.mod_small c0 256) by lia;
      assert (E0 : (c0 =? 0)%N = false) by lia; assert (E4 : (c0 =? 254)%N = false) by lia; assert (E5 : (c0 =? 255)%N = false) by lia;
      destruct bg; cbv beta iota delta [app firstn]; unfold detect, detect2, eq0; rewrite ?E0, ?E4, ?E5, ?Ex, ?Ey; reflexivity]).
Qed.
