(* DetectProofs.v — a reader fault that lies within the input can never be
   masked by format detection: with the TOML trial last, detection over a
   faulting reader ends in the propagated I/O error or in a format chosen by an
   earlier trial, never in "no format" and never in TOML; and whatever the
   trials did, the handle afterwards still yields the unaltered stream up to
   the fault. *)
From XtModel Require Import Base InputModel InputProofs FormatsModel DetectModel.

Section Proofs.
  Variable sched : nat -> nat.
  Variable cutoff : nat.
  Variable toml_parses : bytes -> bool.

  (* a Take that was not exhausted means the source reached EOF *)
  Lemma cap_capture_up_to_eof c size c' u :
    Inv c -> cap_capture_up_to c size = (c', Ok u) ->
    length (prefix c') < size -> eof c' = true.
  Proof.
    intros (Hp & Hd & Hpos & Hsrc & Heof) H Hlt. unfold cap_capture_up_to in H.
    destruct (size - length (prefix c) =? 0) eqn:Hn.
    - apply Nat.eqb_eq in Hn. inversion H; subst c'. lia.
    - apply Nat.eqb_neq in Hn.
      destruct (src_read_to_end_take (source c) (size - length (prefix c)) Hsrc ltac:(lia))
        as (s' & bs & rr & Hr & Hda & Hfa & Hsi & Hde & Hbs & Hbl & Hres).
      rewrite Hr in H.
      destruct rr as [[lim|]|e]; [|contradiction|discriminate].
      destruct Hres as (Hlim & _).
      inversion H; subst c'; clear H. cbn [prefix eof] in *.
      rewrite app_length in Hlt.
      assert (Hl : 0 < lim) by lia.
      apply Nat.ltb_lt in Hl. now rewrite Hl.
  Qed.

  (* The shape of a reachable program state over a reader whose fault lies
     within the data. *)
  Definition FaultyState (d : bytes) (k : nat) (st : pstate) : Prop :=
    exists sl p, SInv st sl p /\ hdata (fst st) = d /\ hfault (fst st) = Some k.

  Lemma faulty_step d k st o :
    FaultyState d k st -> FaultyState d k (fst (step sched st o)).
  Proof.
    intros (sl & p & HS & Hd & Hf).
    destruct (step sched st o) as [st' ob] eqn:Hs. cbn [fst].
    destruct (step_ok sched st o st' ob sl p HS Hs) as (Hd' & Hf' & sl' & p' & HS' & _).
    exists sl', p'. split; [exact HS'|]. split; congruence.
  Qed.

  Lemma faulty_run d k ops : forall st,
    FaultyState d k st -> FaultyState d k (fst (run sched st ops)).
  Proof.
    induction ops as [|o ops IH]; intros st H; cbn [run fst]; [exact H|].
    pose proof (faulty_step d k st o H) as H1.
    destruct (step sched st o) as [st1 ob]. cbn [fst] in H1.
    specialize (IH st1 H1). destruct (run sched st1 ops) as [st2 os]. exact IH.
  Qed.

  Lemma faulty_trial d k t st :
    FaultyState d k st -> FaultyState d k (fst (run_trial sched t st)).
  Proof.
    intros H. unfold run_trial.
    pose proof (faulty_step d k st OReborrow H) as H1.
    destruct (step sched st OReborrow) as [st1 ob]. cbn [fst] in H1.
    pose proof (faulty_run d k (t_ops t) st1 H1) as H2.
    destruct (run sched st1 (t_ops t)) as [st2 os]. exact H2.
  Qed.

  (* A fresh borrow of a handle whose source fault lies within the data is never
     in slice mode: slice mode means EOF was seen. *)
  Lemma faulty_borrow_reader d k st :
    k <= length d -> FaultyState d k st ->
    exists c, step sched st OReborrow = ((HReader c, RReader), ObsBorrow false) /\ Inv c /\
              data (source c) = d /\ fault (source c) = Some k.
  Proof.
    intros Hk H.
    pose proof (faulty_step d k st OReborrow H) as H1.
    destruct H as (sl & p & HS & Hd & Hf).
    destruct st as [h r]. cbn [step] in *. cbn [fst] in Hd, Hf.
    destruct h as [b|c]; cbn [hfault] in Hf; [discriminate|].
    cbn [borrow_mut] in *. cbn [hdata] in Hd.
    destruct (eof (cap_rewind c)) eqn:He.
    - (* slice mode would need a fault-free source *)
      cbn [fst] in H1. destruct H1 as (sl' & p' & (HH & HR) & _ & _). cbn [fst snd] in HR.
      destruct HR as (_ & _ & Hff). cbn [fst hdata hfault cap_rewind source] in Hff.
      specialize (Hff k Hf). rewrite Hd in Hff. lia.
    - exists (cap_rewind c). split; [reflexivity|].
      destruct HS as [HH _]. cbn [fst HInv] in HH.
      split; [now apply Inv_rewind|]. cbn [cap_rewind source]. split; assumption.
  Qed.

  (* The TOML trial meets the fault. *)
  Lemma toml_trial_faulty d k st :
    k <= length d -> length d < cutoff -> FaultyState d k st ->
    snd (toml_trial sched cutoff toml_parses st) = Err (SrcFault k).
  Proof.
    intros Hk Hcut H. unfold toml_trial.
    destruct (faulty_borrow_reader d k st Hk H) as (c & Hb & HI & Hd & Hf).
    rewrite Hb. cbn [step].
    destruct (cap_capture_up_to c cutoff) as [c' r] eqn:Hc.
    destruct (cap_capture_up_to_spec sched c cutoff c' r HI Hc) as (HI' & Hda & Hfa & _ & _ & Hres).
    destruct r as [u|e]; cbn [snd].
    - exfalso.
      pose proof HI' as (Hp' & Hd' & _ & Hs' & Heof').
      assert (Hlen : length (prefix c') <= length d).
      { rewrite Hp', firstn_length. rewrite Hda, Hd. lia. }
      assert (He : eof c' = true) by (eapply cap_capture_up_to_eof; [exact HI|exact Hc|lia]).
      destruct (Heof' He) as [Hfull Hnf].
      unfold faulted in Hnf. rewrite Hfa, Hf in Hnf. apply Nat.leb_gt in Hnf.
      rewrite Hda, Hd in Hfull. lia.
    - destruct Hres as [-> _]. unfold fault_err. now rewrite Hf.
  Qed.

  (* Detection over a reader whose fault lies within the data (and within the
     TOML cutoff): whatever the three third-party trials do and answer, the
     outcome is never "no format detected" and never TOML; it is an error, or a
     format an earlier trial vouched for. *)
  Theorem detect_fault_not_masked tm tj ty d k :
    k <= length d -> length d < cutoff ->
    let r := snd (detect_reader sched cutoff toml_parses tm tj ty d (Some k)) in
    r <> Ok None /\ r <> Ok (Some Toml).
  Proof.
    intros Hk Hcut. cbn zeta. unfold detect_reader, detect.
    assert (H0 : FaultyState d k (start (from_reader d (Some k)))).
    { destruct (start_ok (from_reader d (Some k)) (Inv_new d (Some k))) as (sl & HS & Hd0 & Hf0).
      exists sl, (Some 0). split; [exact HS|]. split; [exact Hd0|exact Hf0]. }
    pose proof (faulty_trial d k tm _ H0) as H1.
    destruct (run_trial sched tm (start (from_reader d (Some k)))) as [st1 [[|]|e1]]; cbn [fst snd] in *;
      try (split; discriminate).
    pose proof (faulty_trial d k tj _ H1) as H2.
    destruct (run_trial sched tj st1) as [st2 [[|]|e2]]; cbn [fst snd] in *; try (split; discriminate).
    pose proof (faulty_trial d k ty _ H2) as H3.
    destruct (run_trial sched ty st2) as [st3 [[|]|e3]]; cbn [fst snd] in *; try (split; discriminate).
    pose proof (toml_trial_faulty d k st3 Hk Hcut H3) as Ht.
    destruct (toml_trial sched cutoff toml_parses st3) as [st4 r4]. cbn [snd] in Ht. subst r4.
    cbn [snd]. split; discriminate.
  Qed.

  (* Whatever detection did, with or without a fault, taking ownership of the
     handle afterwards yields the complete stream, or exactly the first k bytes
     followed by the source's own fault. *)
  Lemma toml_trial_state st sl p :
    SInv st sl p ->
    HInv (fst (fst (toml_trial sched cutoff toml_parses st))) /\
    hdata (fst (fst (toml_trial sched cutoff toml_parses st))) = hdata (fst st) /\
    hfault (fst (fst (toml_trial sched cutoff toml_parses st))) = hfault (fst st) /\
    exists sl' p', SInv (fst (toml_trial sched cutoff toml_parses st)) sl' p'.
  Proof.
    intros HS. unfold toml_trial.
    destruct (step sched st OReborrow) as [st1 ob] eqn:Hs1.
    destruct (step_ok sched st OReborrow st1 ob sl p HS Hs1) as (Hd1 & Hf1 & sl1 & p1 & HS1 & _).
    assert (G : forall n,
      HInv (fst (fst (step sched st1 (OPrefix n)))) /\
      hdata (fst (fst (step sched st1 (OPrefix n)))) = hdata (fst st) /\
      hfault (fst (fst (step sched st1 (OPrefix n)))) = hfault (fst st) /\
      exists sl' p', SInv (fst (step sched st1 (OPrefix n))) sl' p').
    { intros n. destruct (step sched st1 (OPrefix n)) as [st2 ob2] eqn:Hs2.
      destruct (step_ok sched st1 (OPrefix n) st2 ob2 sl1 p1 HS1 Hs2) as (Hd2 & Hf2 & sl2 & p2 & HS2 & _).
      cbn [fst]. split; [exact (proj1 HS2)|]. split; [congruence|]. split; [congruence|]. now exists sl2, p2. }
    destruct ob as [[|]| | |].
    - specialize (G 0). destruct (step sched st1 (OPrefix 0)) as [st2 [b|[bs|e]|[bs|e]|]]; exact G.
    - specialize (G cutoff). destruct (step sched st1 (OPrefix cutoff)) as [st2 [b|[bs|e]|[bs|e]|]]; exact G.
    - specialize (G cutoff). destruct (step sched st1 (OPrefix cutoff)) as [st2 [b|[bs|e]|[bs|e]|]]; exact G.
    - specialize (G cutoff). destruct (step sched st1 (OPrefix cutoff)) as [st2 [b|[bs|e]|[bs|e]|]]; exact G.
    - specialize (G cutoff). destruct (step sched st1 (OPrefix cutoff)) as [st2 [b|[bs|e]|[bs|e]|]]; exact G.
  Qed.

  Lemma run_trial_state t st sl p :
    SInv st sl p ->
    hdata (fst (fst (run_trial sched t st))) = hdata (fst st) /\
    hfault (fst (fst (run_trial sched t st))) = hfault (fst st) /\
    exists sl' p', SInv (fst (run_trial sched t st)) sl' p'.
  Proof.
    intros HS. unfold run_trial.
    destruct (step sched st OReborrow) as [st1 ob] eqn:Hs1.
    destruct (step_ok sched st OReborrow st1 ob sl p HS Hs1) as (Hd1 & Hf1 & sl1 & p1 & HS1 & _).
    assert (G : forall ops st sl p, SInv st sl p ->
              hdata (fst (fst (run sched st ops))) = hdata (fst st) /\
              hfault (fst (fst (run sched st ops))) = hfault (fst st) /\
              exists sl' p', SInv (fst (run sched st ops)) sl' p').
    { clear. induction ops as [|o ops IH]; intros st sl p HS; cbn [run fst].
      - split; [reflexivity|]. split; [reflexivity|]. now exists sl, p.
      - destruct (step sched st o) as [st1 ob] eqn:Hs.
        destruct (step_ok sched st o st1 ob sl p HS Hs) as (Hd1 & Hf1 & sl1 & p1 & HS1 & _).
        destruct (IH st1 sl1 p1 HS1) as (Hd2 & Hf2 & Hex).
        destruct (run sched st1 ops) as [st2 os]. cbn [fst] in *.
        split; [congruence|]. split; [congruence|exact Hex]. }
    destruct (G (t_ops t) st1 sl1 p1 HS1) as (Hd2 & Hf2 & Hex).
    destruct (run sched st1 (t_ops t)) as [st2 os]. cbn [fst] in *.
    split; [congruence|]. split; [congruence|exact Hex].
  Qed.

  Theorem detect_then_own tm tj ty d flt f :
    final_ok d flt (finish (fst (fst (detect_reader sched cutoff toml_parses tm tj ty d flt))) f).
  Proof.
    unfold detect_reader, detect.
    destruct (start_ok (from_reader d flt) (Inv_new d flt)) as (sl & HS & Hd0 & Hf0).
    cbn [from_reader hdata hfault cap_new source data fault] in Hd0, Hf0.
    set (st0 := start (from_reader d flt)) in *.
    assert (Fin : forall st sl p, SInv st sl p -> hdata (fst st) = d -> hfault (fst st) = flt ->
                    final_ok d flt (finish (fst st) f)).
    { intros st sl' p' HS' Hd Hf. rewrite <- Hd, <- Hf. apply finish_ok. exact (proj1 HS'). }
    destruct (run_trial_state tm st0 sl (Some 0) HS) as (Hd1 & Hf1 & sl1 & p1 & HS1).
    destruct (run_trial sched tm st0) as [st1 r1]. cbn [fst] in *.
    assert (F1 : final_ok d flt (finish (fst st1) f)) by (eapply Fin; [exact HS1|congruence|congruence]).
    destruct r1 as [[|]|e1]; cbn [fst]; try exact F1.
    destruct (run_trial_state tj st1 sl1 p1 HS1) as (Hd2 & Hf2 & sl2 & p2 & HS2).
    destruct (run_trial sched tj st1) as [st2 r2]. cbn [fst] in *.
    assert (F2 : final_ok d flt (finish (fst st2) f)) by (eapply Fin; [exact HS2|congruence|congruence]).
    destruct r2 as [[|]|e2]; cbn [fst]; try exact F2.
    destruct (run_trial_state ty st2 sl2 p2 HS2) as (Hd3 & Hf3 & sl3 & p3 & HS3).
    destruct (run_trial sched ty st2) as [st3 r3]. cbn [fst] in *.
    assert (F3 : final_ok d flt (finish (fst st3) f)) by (eapply Fin; [exact HS3|congruence|congruence]).
    destruct r3 as [[|]|e3]; cbn [fst]; try exact F3.
    destruct (toml_trial_state st3 sl3 p3 HS3) as (_ & Hd4 & Hf4 & sl4 & p4 & HS4).
    destruct (toml_trial sched cutoff toml_parses st3) as [st4 r4]. cbn [fst] in *.
    assert (F4 : final_ok d flt (finish (fst st4) f)) by (eapply Fin; [exact HS4|congruence|congruence]).
    destruct r4 as [[|]|e4]; cbn [fst]; exact F4.
  Qed.
End Proofs.

(* The premises are satisfiable: a 3-byte stream failing after 2 bytes. *)
Example detect_fault_nonvacuous :
  let t := {| t_ops := [ORead 1]; t_verdict := fun _ => Ok false |} in
  snd (detect_reader (fun _ => 0) 10 (fun _ => true) t t t [1; 2; 3]%N (Some 2)) = Err (SrcFault 2).
Proof. vm_compute. reflexivity. Qed.
