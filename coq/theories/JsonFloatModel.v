(* JsonFloatModel.v — how serde_json 1.0.138 spells a binary64 in xt's JSON
   output (serde_json::Serializer::serialize_f64 -> ryu 1.0.x
   `pretty::format64`), as an executable specification.

   (1) non-finite values are written as `null`; zero as `0.0` / `-0.0`;
   (2) every other value as the SHORTEST decimal c * 10^k that reads back to the
       same binary64 — the largest k for which one of the two multiples of 10^k
       around the value does, the nearer one when both do, the even c on a tie
       (ryu's `d2d`) — where "reads back" is decided with the reader model's own
       conversion [f64_of_decimal] on exactly the digits and exponent the reader
       will find in the text;
   (3) laid out by ryu's five cases (`12340000000.0`, `12.34`, `0.001234`,
       `1e30`, `1.234e33`; exponent without `+` and without leading zeros).

   ryu computes (2) with 128-bit fixed-point tables; this model computes it with
   exact integer arithmetic.  That the two agree is checked by the
   correspondence (case kinds RY and MJ) on every run, over boundary tables and
   random bit patterns.  The search below is bounded (it starts at an exponent
   that leaves 18 to 20 digits and walks up at most [ryu_steps] exponents);
   [ryu_ok] says that it succeeded, and the theorems are stated for such values.
   That it succeeds for every finite binary64 (17 digits always suffice) is not
   proved here; it is measured by the correspondence. *)
From XtModel Require Import Base Utf8 MsgpackModel JsonModel JsonWriteModel.

(* ---------- the binary64 behind a bit pattern ---------- *)

Definition two64 : N := 18446744073709551616.

Definition f_neg (b : N) : bool := (sign_bit <=? b)%N.
Definition f_abs (b : N) : N := if f_neg b then (b - sign_bit)%N else b.
Definition f_finite (b : N) : bool := ((b <? two64) && (f_abs b <? inf_bits))%N.

Definition f_bexp (a : N) : N := (a / two52)%N.
Definition f_mant (a : N) : N := if (f_bexp a =? 0)%N then (a mod two52)%N else (a mod two52 + two52)%N.
Definition f_exp2 (a : N) : Z := if (f_bexp a =? 0)%N then (-1074)%Z else (Z.of_N (f_bexp a) - 1075)%Z.

(* |x| = f_num / f_den exactly *)
Definition f_num (a : N) : N := if (0 <=? f_exp2 a)%Z then (f_mant a * 2 ^ Z.to_N (f_exp2 a))%N else f_mant a.
Definition f_den (a : N) : N := if (0 <=? f_exp2 a)%Z then 1%N else (2 ^ Z.to_N (- f_exp2 a))%N.

(* ---------- ryu's layouts ---------- *)

(* digit values of n, most significant first *)
Definition dec_digits (n : N) : list N := map (fun c => (c - 48)%N) (to_dec n).

(* a number literal: integer digits, fraction digits (none: no point), exponent *)
Record fshape := { fs_ints : list N; fs_fracs : list N; fs_exp : option Z }.

Definition zeros (n : nat) : list N := repeat 0%N n.

(* pretty::format64 after d2d returned mantissa c, exponent k *)
Definition ryu_shape (c : N) (k : Z) : fshape :=
  let ds := dec_digits c in
  let len := Z.of_nat (length ds) in
  let kk := (len + k)%Z in
  if ((0 <=? k) && (kk <=? 16))%Z then
    {| fs_ints := ds ++ zeros (Z.to_nat k); fs_fracs := [0%N]; fs_exp := None |}
  else if ((0 <? kk) && (kk <=? 16))%Z then
    {| fs_ints := firstn (Z.to_nat kk) ds; fs_fracs := skipn (Z.to_nat kk) ds; fs_exp := None |}
  else if ((-5 <? kk) && (kk <=? 0))%Z then
    {| fs_ints := [0%N]; fs_fracs := zeros (Z.to_nat (- kk)) ++ ds; fs_exp := None |}
  else if (len =? 1)%Z then
    {| fs_ints := ds; fs_fracs := []; fs_exp := Some (kk - 1)%Z |}
  else
    {| fs_ints := firstn 1 ds; fs_fracs := skipn 1 ds; fs_exp := Some (kk - 1)%Z |}.

Definition digs_text (ds : list N) : bytes := map (fun d => (48 + d)%N) ds.

(* write_exponent3: a minus sign if negative, then the digits *)
Definition exp_text (e : Z) : bytes :=
  if (e <? 0)%Z then 45%N :: to_dec (Z.to_N (- e)) else to_dec (Z.to_N e).

Definition shape_text (sh : fshape) : bytes :=
  digs_text (fs_ints sh)
  ++ (match fs_fracs sh with [] => [] | _ :: _ => 46%N :: digs_text (fs_fracs sh) end)
  ++ (match fs_exp sh with None => [] | Some e => 101%N :: exp_text e end).

(* what the reader makes of such a literal: the digit string and the power of ten *)
Definition shape_D (sh : fshape) : N := digits_val (fs_ints sh ++ fs_fracs sh).
Definition shape_E (sh : fshape) : Z :=
  ((match fs_exp sh with None => 0 | Some e => e end) - Z.of_nat (length (fs_fracs sh)))%Z.

Definition all_digits (ds : list N) : bool := forallb (fun d => (d <? 10)%N) ds.

(* a literal the number grammar reads as a float: digits only, no superfluous
   leading zero, a fraction or an exponent present *)
Definition shape_wf (sh : fshape) : bool :=
  all_digits (fs_ints sh) && all_digits (fs_fracs sh)
  && (match fs_ints sh with
      | [] => false
      | d :: rest => negb (d =? 0)%N || match rest with [] => true | _ :: _ => false end
      end)
  && (match fs_fracs sh, fs_exp sh with [], None => false | _, _ => true end).

(* the literal reads back to the binary64 with magnitude bits [a] *)
Definition shape_reads (a : N) (sh : fshape) : bool :=
  shape_wf sh &&
  match f64_of_decimal (shape_D sh) (shape_E sh) with
  | Some b => (b =? a)%N
  | None => false
  end.

(* ---------- d2d: the shortest decimal that reads back ---------- *)

(* |x| / 10^k as a fraction *)
Definition scale10 (a : N) (k : Z) : N * N :=
  if (0 <=? k)%Z then (f_num a, f_den a * 10 ^ Z.to_N k)%N else (f_num a * 10 ^ Z.to_N (- k), f_den a)%N.

(* the multiples of 10^k around |x| that read back; the nearer, the even one on a tie *)
Definition try_k (a : N) (k : Z) : option N :=
  let (n, d) := scale10 a k in
  let c := (n / d)%N in
  let lo := ((1 <=? c)%N && shape_reads a (ryu_shape c k)) in
  let hi := shape_reads a (ryu_shape (c + 1) k) in
  match lo, hi with
  | false, false => None
  | true, false => Some c
  | false, true => Some (c + 1)%N
  | true, true =>
      if (2 * n <? (2 * c + 1) * d)%N then Some c
      else if (2 * n =? (2 * c + 1) * d)%N then (if N.even c then Some c else Some (c + 1)%N)
      else Some (c + 1)%N
  end.

(* Walk up from an exponent that leaves 18 to 20 digits (where a candidate
   always reads back) while the next exponent still has a candidate that reads
   back; the last success is the answer.  Since a multiple of 10^(k+1) is a
   multiple of 10^k and rounding is monotone, the exponents with a candidate that
   reads back form an initial segment, so this is the largest one. *)
Fixpoint ryu_ascend (steps : nat) (a : N) (k : Z) (best : option (N * Z)) : option (N * Z) :=
  match steps with
  | O => best
  | S s =>
      match try_k a k with
      | Some c => ryu_ascend s a (k + 1)%Z (Some (c, k))
      | None => best
      end
  end.

Definition ryu_steps : nat := 26.

(* an exponent above the decimal magnitude of |x| (by at most 2) *)
Definition ryu_top (a : N) : Z :=
  ((Z.of_N (N.log2 (f_num a)) - Z.of_N (N.log2 (f_den a)) + 1) * 30103 / 100000 + 2)%Z.

Definition ryu_d2d (a : N) : option (N * Z) := ryu_ascend ryu_steps a (ryu_top a - 21)%Z None.

Definition zero_shape : fshape := {| fs_ints := [0%N]; fs_fracs := [0%N]; fs_exp := None |}.

(* the literal for the magnitude bits [a] of a finite value *)
Definition ryu_abs (a : N) : option fshape :=
  if (a =? 0)%N then Some zero_shape
  else match ryu_d2d a with
       | Some (c, k) => Some (ryu_shape c k)
       | None => None
       end.

(* a finite value for which the bounded search finds its spelling *)
Definition ryu_ok (b : N) : bool :=
  f_finite b && match ryu_abs (f_abs b) with Some _ => true | None => false end.

(* ryu's text for a finite binary64 *)
Definition ryu_f64 (b : N) : bytes :=
  (if f_neg b then [45%N] else [])
  ++ match ryu_abs (f_abs b) with Some sh => shape_text sh | None => [] end.

(* serde_json's serialize_f64: `null` for NaN and the infinities *)
Definition json_f64 (b : N) : bytes :=
  if f_finite b then ryu_f64 b else [110; 117; 108; 108]%N.

(* ---------- translations through the models, floats included ---------- *)

Fixpoint all_f64_ok (es : list ev) : bool :=
  match es with
  | EF64 b :: r => (negb (f_finite b) || ryu_ok b) && all_f64_ok r
  | EF32 _ :: _ => false
  | _ :: r => all_f64_ok r
  | [] => true
  end.

(* MessagePack -> JSON: read with the slice loop, write every document *)
Definition msgpack_to_json_f (inp : bytes) : option bytes :=
  let r := transcode_slice utf8_valid inp in
  if mm_ok r then
    if forallb all_f64_ok (fst r) then json_of_docs json_f64 (fst r) else None
  else None.

(* JSON -> JSON: read with the slice loop, write every document back *)
Definition json_to_json_f (inp : bytes) : option bytes :=
  match json_slice inp with
  | (docs, JDone) => if forallb all_f64_ok docs then json_of_docs json_f64 docs else None
  | _ => None
  end.
