(* MsgpackCodecProofs.v — rmp-serde's reader reads exactly what rmp's writer wrote.

   [mval] is a MessagePack value as a tree.  [evs v] is the stream of visitor
   events xt forwards for it, [enc_val v] the bytes rmp's encoder writes for
   those events (the shortest form of every integer and length).  For every
   well-formed value, of any size and any nesting depth below the decoder's
   limit, and whatever bytes follow it:

     decoding (enc_val v ++ tail) yields exactly [evs v] and leaves [tail].

   Consequences: MessagePack -> MessagePack through xt is the identity on xt's
   own MessagePack output, in both input modes, for streams of any number of
   documents; a collection-rooted value written by xt is recognised as
   MessagePack by format detection; the encoding is injective (distinct values
   never share an encoding), and integers, floats, strings, binary data keep
   their type and exact value. *)
From XtModel Require Import Base MsgpackModel MsgpackProofs MsgpackDecProofs MsgpackSizeProofs MsgpackAgreeProofs SelfDetectProofs.
Require Import ZifyBool ZifyNat ZifyN.

Arguments N.add : simpl never.
Arguments N.sub : simpl never.
Arguments N.mul : simpl never.
Arguments N.eqb : simpl never.
Arguments N.ltb : simpl never.
Arguments N.leb : simpl never.
Arguments N.div : simpl never.
Arguments N.modulo : simpl never.
Arguments N.pow : simpl never.
Arguments Z.pow : simpl never.
Arguments Z.modulo : simpl never.
Arguments firstn : simpl never.
Arguments skipn : simpl never.

(* ---------- big-endian fields ---------- *)

Lemma be_snoc bs b : be (bs ++ [b]) = (be bs * 256 + b)%N.
Proof. unfold be. now rewrite fold_left_app. Qed.

Lemma be_bytes_length w n : length (be_bytes w n) = w.
Proof.
  revert n. induction w as [|w IH]; intros n; [reflexivity|].
  cbn [be_bytes]. rewrite app_length, IH. cbn [length]. lia.
Qed.

Lemma be_be_bytes w n : (n < 256 ^ N.of_nat w)%N -> be (be_bytes w n) = n.
Proof.
  revert n. induction w as [|w IH]; intros n H.
  - cbn [be_bytes]. change (256 ^ N.of_nat 0)%N with 1%N in H. unfold be. cbn [fold_left]. lia.
  - cbn [be_bytes]. rewrite be_snoc.
    assert (Hp : (256 ^ N.of_nat (S w) = 256 * 256 ^ N.of_nat w)%N).
    { rewrite Nat2N.inj_succ, N.pow_succ_r'. reflexivity. }
    rewrite IH.
    + pose proof (N.div_mod n 256). lia.
    + apply N.div_lt_upper_bound; lia.
Qed.

Lemma len_n_be_bytes w n : len_n (be_bytes w n) = N.of_nat w.
Proof. unfold len_n. now rewrite be_bytes_length. Qed.

Lemma take_n_app_exact a b n : n = len_n a -> take_n n (a ++ b) = Some (a, b).
Proof.
  intros ->. unfold len_n. rewrite take_n_ok by (unfold len_n; rewrite app_length; lia).
  rewrite Nat2N.id. rewrite firstn_app, skipn_app, Nat.sub_diag, firstn_all, skipn_all.
  cbn [firstn skipn app]. now rewrite app_nil_r.
Qed.

Lemma take_n_0 l : take_n 0 l = Some ([], l).
Proof. exact (take_n_app_exact [] l 0%N eq_refl). Qed.

Lemma take_field w n tail : take_n (N.of_nat w) (be_bytes w n ++ tail) = Some (be_bytes w n, tail).
Proof. apply take_n_app_exact. now rewrite len_n_be_bytes. Qed.

(* ---------- two's complement ---------- *)

Lemma signed_1 z : (-128 <= z < 0)%Z -> to_signed 8 (of_signed 1 z) = z.
Proof.
  intros H. unfold to_signed, of_signed.
  change (2 ^ (8 * Z.of_nat 1))%Z with 256%Z. change (2 ^ (N.of_nat 8 - 1))%N with 128%N.
  change (2 ^ Z.of_nat 8)%Z with 256%Z.
  assert (E : (z mod 256 = z + 256)%Z).
  { symmetry. apply Z.mod_unique with (q := (-1)%Z); lia. }
  rewrite E. destruct (Z.to_N (z + 256) <? 128)%N eqn:C; lia.
Qed.

Lemma signed_2 z : (-32768 <= z < 0)%Z -> to_signed 16 (of_signed 2 z) = z.
Proof.
  intros H. unfold to_signed, of_signed.
  change (2 ^ (8 * Z.of_nat 2))%Z with 65536%Z. change (2 ^ (N.of_nat 16 - 1))%N with 32768%N.
  change (2 ^ Z.of_nat 16)%Z with 65536%Z.
  assert (E : (z mod 65536 = z + 65536)%Z).
  { symmetry. apply Z.mod_unique with (q := (-1)%Z); lia. }
  rewrite E. destruct (Z.to_N (z + 65536) <? 32768)%N eqn:C; lia.
Qed.

Lemma signed_4 z : (-2147483648 <= z < 0)%Z -> to_signed 32 (of_signed 4 z) = z.
Proof.
  intros H. unfold to_signed, of_signed.
  change (2 ^ (8 * Z.of_nat 4))%Z with 4294967296%Z. change (2 ^ (N.of_nat 32 - 1))%N with 2147483648%N.
  change (2 ^ Z.of_nat 32)%Z with 4294967296%Z.
  assert (E : (z mod 4294967296 = z + 4294967296)%Z).
  { symmetry. apply Z.mod_unique with (q := (-1)%Z); lia. }
  rewrite E. destruct (Z.to_N (z + 4294967296) <? 2147483648)%N eqn:C; lia.
Qed.

Lemma signed_8 z : (-9223372036854775808 <= z < 0)%Z -> to_signed 64 (of_signed 8 z) = z.
Proof.
  intros H. unfold to_signed, of_signed.
  change (2 ^ (8 * Z.of_nat 8))%Z with 18446744073709551616%Z.
  change (2 ^ (N.of_nat 64 - 1))%N with 9223372036854775808%N.
  change (2 ^ Z.of_nat 64)%Z with 18446744073709551616%Z.
  assert (E : (z mod 18446744073709551616 = z + 18446744073709551616)%Z).
  { symmetry. apply Z.mod_unique with (q := (-1)%Z); lia. }
  rewrite E. destruct (Z.to_N (z + 18446744073709551616) <? 9223372036854775808)%N eqn:C; lia.
Qed.

Lemma of_signed_range w z : (of_signed w z < 256 ^ N.of_nat w)%N.
Proof.
  unfold of_signed.
  assert (Hm : (0 <= z mod 2 ^ (8 * Z.of_nat w) < 2 ^ (8 * Z.of_nat w))%Z) by (apply Z.mod_pos_bound; apply Z.pow_pos_nonneg; lia).
  assert (E : (Z.of_N (256 ^ N.of_nat w) = 2 ^ (8 * Z.of_nat w))%Z).
  { rewrite N2Z.inj_pow, nat_N_Z. change (Z.of_N 256) with (2 ^ 8)%Z. rewrite <- Z.pow_mul_r by lia. reflexivity. }
  lia.
Qed.

(* ---------- marker classes ---------- *)

Lemma classify_posfix m : (m < 128)%N -> classify m = MkScalar 0.
Proof. intros H. unfold classify. destruct (m <? 128)%N eqn:E; [reflexivity|lia]. Qed.

Lemma classify_mapfix m : (128 <= m < 144)%N -> classify m = MkMapFix (m - 128).
Proof.
  intros H. unfold classify.
  destruct (m <? 128)%N eqn:E1; [lia|]. destruct (m <? 144)%N eqn:E2; [reflexivity|lia].
Qed.

Lemma classify_arrfix m : (144 <= m < 160)%N -> classify m = MkArrFix (m - 144).
Proof.
  intros H. unfold classify.
  destruct (m <? 128)%N eqn:E1; [lia|]. destruct (m <? 144)%N eqn:E2; [lia|].
  destruct (m <? 160)%N eqn:E3; [reflexivity|lia].
Qed.

Lemma classify_strfix m : (160 <= m < 192)%N -> classify m = MkStrFix (m - 160).
Proof.
  intros H. unfold classify.
  destruct (m <? 128)%N eqn:E1; [lia|]. destruct (m <? 144)%N eqn:E2; [lia|].
  destruct (m <? 160)%N eqn:E3; [lia|]. destruct (m <? 192)%N eqn:E4; [reflexivity|lia].
Qed.

(* the 32 negative fixints, by enumeration *)
Definition negfix_ok (m : N) : bool :=
  match classify m with MkScalar 0 => true | _ => false end &&
  match scalar_ev m [] with ESInt 8 z => (z =? to_signed 8 m)%Z | _ => false end.

Lemma negfix_sweep : forallb negfix_ok (map N.of_nat (seq 224 32)) = true.
Proof. vm_compute. reflexivity. Qed.

Lemma negfix m : (224 <= m < 256)%N -> classify m = MkScalar 0 /\ scalar_ev m [] = ESInt 8 (to_signed 8 m).
Proof.
  intros H. pose proof negfix_sweep as S. rewrite forallb_forall in S.
  assert (Hin : In m (map N.of_nat (seq 224 32))).
  { apply in_map_iff. exists (N.to_nat m). split; [lia|]. apply in_seq. lia. }
  specialize (S m Hin). unfold negfix_ok in S. apply andb_true_iff in S as [S1 S2].
  split.
  - destruct (classify m) as [p| | | | | | | | | |]; try discriminate. destruct p; [reflexivity|discriminate].
  - destruct (scalar_ev m []) as [| | | w z | | | | | | | | |]; try discriminate.
    destruct w as [|[|[|[|[|[|[|[|[|w]]]]]]]]]; try discriminate.
    apply Z.eqb_eq in S2. now subst.
Qed.

(* ---------- values ---------- *)

Inductive mval :=
| VNil
| VBool (b : bool)
| VUInt (n : N)                 (* 0 .. 2^64-1 *)
| VNeg (z : Z)                  (* -2^63 .. -1 *)
| VF32 (bits : N)
| VF64 (bits : N)
| VStr (s : bytes)              (* valid UTF-8 *)
| VBin (s : bytes)
| VArr (vs : list mval)
| VMap (kvs : list (mval * mval)).

Definition lenN {A} (l : list A) : N := N.of_nat (length l).

(* the integer width rmp-serde's reader reports for the shortest encoding *)
Definition uwidth (n : N) : nat :=
  if (n <? 256)%N then 8 else if (n <? 65536)%N then 16 else if (n <? 4294967296)%N then 32 else 64.
Definition swidth (z : Z) : nat :=
  if (-128 <=? z)%Z then 8 else if (-32768 <=? z)%Z then 16 else if (-2147483648 <=? z)%Z then 32 else 64.

Fixpoint evs (v : mval) : list ev :=
  match v with
  | VNil => [EUnit]
  | VBool b => [EBool b]
  | VUInt n => [EUInt (uwidth n) n]
  | VNeg z => [ESInt (swidth z) z]
  | VF32 b => [EF32 b]
  | VF64 b => [EF64 b]
  | VStr s => [EStr s]
  | VBin s => [EBytes s]
  | VArr vs => ESeq (lenN vs) :: flat_map evs vs ++ [ESeqEnd]
  | VMap kvs => EMap (lenN kvs) :: flat_map (fun kv : mval * mval => let (k, x) := kv in evs k ++ evs x) kvs ++ [EMapEnd]
  end.

Definition enc_val (v : mval) : bytes := enc_evs (evs v).

(* nesting depth: the number of collections around the innermost value *)
Fixpoint depth (v : mval) : nat :=
  match v with
  | VArr vs => S (fold_right (fun x acc => Nat.max (depth x) acc) 0 vs)
  | VMap kvs => S (fold_right (fun (kv : mval * mval) acc => let (k, x) := kv in Nat.max (Nat.max (depth k) (depth x)) acc) 0 kvs)
  | _ => 0
  end.

(* key/value pairs as the flat sequence the decoder's MapAccess walks *)
Definition flatten (kvs : list (mval * mval)) : list mval := flat_map (fun kv : mval * mval => [fst kv; snd kv]) kvs.

Section Codec.
  Variable utf8_valid : bytes -> bool.
  Variable ext_ok : bool.

  Notation D := (D utf8_valid ext_ok).
  Notation DS := (DS utf8_valid ext_ok).

  (* what rmp can encode: 64-bit integers, 32-bit lengths, UTF-8 strings *)
  Fixpoint wfb (v : mval) : bool :=
    match v with
    | VNil | VBool _ => true
    | VUInt n => (n <? 18446744073709551616)%N
    | VNeg z => (-9223372036854775808 <=? z)%Z && (z <? 0)%Z
    | VF32 b => (b <? 4294967296)%N
    | VF64 b => (b <? 18446744073709551616)%N
    | VStr s => (len_n s <? 4294967296)%N && utf8_valid s
    | VBin s => (len_n s <? 4294967296)%N
    | VArr vs => (lenN vs <? 4294967296)%N && forallb wfb vs
    | VMap kvs => (lenN kvs <? 4294967296)%N && forallb (fun kv : mval * mval => let (k, x) := kv in wfb k && wfb x) kvs
    end.
End Codec.

Lemma scalar_ev_closed :
  (forall utf8 f, scalar_ev 192 f = EUnit /\ scalar_ev 194 f = EBool false /\ scalar_ev 195 f = EBool true /\
     scalar_ev 202 f = EF32 (be f) /\ scalar_ev 203 f = EF64 (be f) /\
     scalar_ev 204 f = EUInt 8 (be f) /\ scalar_ev 205 f = EUInt 16 (be f) /\
     scalar_ev 206 f = EUInt 32 (be f) /\ scalar_ev 207 f = EUInt 64 (be f) /\
     scalar_ev 208 f = ESInt 8 (to_signed 8 (be f)) /\ scalar_ev 209 f = ESInt 16 (to_signed 16 (be f)) /\
     scalar_ev 210 f = ESInt 32 (to_signed 32 (be f)) /\ scalar_ev 211 f = ESInt 64 (to_signed 64 (be f)) /\ utf8 = utf8 :> (bytes -> bool)).
Proof. intros. repeat split. Qed.

Lemma be_single b : be [b] = b.
Proof. unfold be. cbn [fold_left]. lia. Qed.

Section Roundtrip.
  Variable utf8_valid : bytes -> bool.
  Variable ext_ok : bool.

  Notation D := (D utf8_valid ext_ok).
  Notation DS := (DS utf8_valid ext_ok).
  Notation wfb := (wfb utf8_valid).
  Notation leaf_dec := (leaf_dec utf8_valid ext_ok).

  Ltac marker m c :=
    rewrite D_cons; change (classify m) with c; cbn [is_coll]; unfold MsgpackDecProofs.leaf_dec; change (classify m) with c; cbv beta iota.

  Lemma D_nil_val tail d : D (enc_val VNil ++ tail) d = (evs VNil, DOk tail).
  Proof.
    change (enc_val VNil ++ tail) with (192%N :: tail). marker 192%N (MkScalar 0). now rewrite take_n_0.
  Qed.

  Lemma D_bool_val b tail d : D (enc_val (VBool b) ++ tail) d = (evs (VBool b), DOk tail).
  Proof.
    destruct b.
    - change (enc_val (VBool true) ++ tail) with (195%N :: tail). marker 195%N (MkScalar 0). now rewrite take_n_0.
    - change (enc_val (VBool false) ++ tail) with (194%N :: tail). marker 194%N (MkScalar 0). now rewrite take_n_0.
  Qed.

  Lemma enc_val_single e v : evs v = [e] -> enc_val v = enc_ev e.
  Proof. unfold enc_val, enc_evs. intros ->. cbn [flat_map]. now rewrite app_nil_r. Qed.

  Lemma D_uint_val n tail d : (n < 18446744073709551616)%N ->
    D (enc_val (VUInt n) ++ tail) d = (evs (VUInt n), DOk tail).
  Proof.
    intros Hn. rewrite (enc_val_single (EUInt (uwidth n) n) (VUInt n) eq_refl). cbn [enc_ev evs]. unfold enc_uint, uwidth.
    destruct (n <? 128)%N eqn:E1.
    - cbn [app]. rewrite D_cons, (classify_posfix n) by lia. cbn [is_coll]. unfold MsgpackDecProofs.leaf_dec.
      rewrite classify_posfix by lia. cbv beta iota. rewrite take_n_0. unfold scalar_ev. rewrite E1.
      destruct (n <? 256)%N eqn:E2; [reflexivity|lia].
    - destruct (n <? 256)%N eqn:E2.
      + change ([204%N; n] ++ tail) with (204%N :: [n] ++ tail). marker 204%N (MkScalar 1).
        rewrite (take_n_app_exact [n] tail 1%N eq_refl).
        change (scalar_ev 204 [n]) with (EUInt 8 (be [n])). now rewrite be_single.
      + destruct (n <? 65536)%N eqn:E3.
        * change ((205%N :: be_bytes 2 n) ++ tail) with (205%N :: be_bytes 2 n ++ tail). marker 205%N (MkScalar 2).
          change 2%N with (N.of_nat 2). rewrite take_field.
          change (scalar_ev 205 (be_bytes 2 n)) with (EUInt 16 (be (be_bytes 2 n))).
          rewrite be_be_bytes by (change (256 ^ N.of_nat 2)%N with 65536%N; lia). reflexivity.
        * destruct (n <? 4294967296)%N eqn:E4.
          -- change ((206%N :: be_bytes 4 n) ++ tail) with (206%N :: be_bytes 4 n ++ tail). marker 206%N (MkScalar 4).
             change 4%N with (N.of_nat 4). rewrite take_field.
             change (scalar_ev 206 (be_bytes 4 n)) with (EUInt 32 (be (be_bytes 4 n))).
             rewrite be_be_bytes by (change (256 ^ N.of_nat 4)%N with 4294967296%N; lia). reflexivity.
          -- change ((207%N :: be_bytes 8 n) ++ tail) with (207%N :: be_bytes 8 n ++ tail). marker 207%N (MkScalar 8).
             change 8%N with (N.of_nat 8). rewrite take_field.
             change (scalar_ev 207 (be_bytes 8 n)) with (EUInt 64 (be (be_bytes 8 n))).
             rewrite be_be_bytes by (change (256 ^ N.of_nat 8)%N with 18446744073709551616%N; lia). reflexivity.
  Qed.

  Lemma D_neg_val z tail d : (-9223372036854775808 <= z < 0)%Z ->
    D (enc_val (VNeg z) ++ tail) d = (evs (VNeg z), DOk tail).
  Proof.
    intros Hz. rewrite (enc_val_single (ESInt (swidth z) z) (VNeg z) eq_refl). cbn [enc_ev evs]. unfold enc_sint, swidth.
    destruct (z <? 0)%Z eqn:E0; [|lia].
    destruct (-32 <=? z)%Z eqn:E1.
    - assert (Hm : (224 <= of_signed 1 z < 256)%N).
      { unfold of_signed. change (2 ^ (8 * Z.of_nat 1))%Z with 256%Z.
        assert (E : (z mod 256 = z + 256)%Z) by (symmetry; apply Z.mod_unique with (q := (-1)%Z); lia). lia. }
      destruct (negfix _ Hm) as [Hc Hs].
      cbn [app]. rewrite D_cons, Hc. cbn [is_coll]. unfold MsgpackDecProofs.leaf_dec. rewrite Hc. cbv beta iota.
      rewrite take_n_0, Hs, signed_1 by lia. destruct (-128 <=? z)%Z eqn:E2; [reflexivity|lia].
    - destruct (-128 <=? z)%Z eqn:E2.
      + change ([208%N; of_signed 1 z] ++ tail) with (208%N :: [of_signed 1 z] ++ tail). marker 208%N (MkScalar 1).
        rewrite (take_n_app_exact [of_signed 1 z] tail 1%N eq_refl).
        change (scalar_ev 208 [of_signed 1 z]) with (ESInt 8 (to_signed 8 (be [of_signed 1 z]))).
        now rewrite be_single, signed_1 by lia.
      + destruct (-32768 <=? z)%Z eqn:E3.
        * change ((209%N :: be_bytes 2 (of_signed 2 z)) ++ tail) with (209%N :: be_bytes 2 (of_signed 2 z) ++ tail).
          marker 209%N (MkScalar 2). change 2%N with (N.of_nat 2). rewrite take_field.
          change (scalar_ev 209 (be_bytes 2 (of_signed 2 z))) with (ESInt 16 (to_signed 16 (be (be_bytes 2 (of_signed 2 z))))).
          now rewrite be_be_bytes, signed_2 by (try apply of_signed_range; lia).
        * destruct (-2147483648 <=? z)%Z eqn:E4.
          -- change ((210%N :: be_bytes 4 (of_signed 4 z)) ++ tail) with (210%N :: be_bytes 4 (of_signed 4 z) ++ tail).
             marker 210%N (MkScalar 4). change 4%N with (N.of_nat 4). rewrite take_field.
             change (scalar_ev 210 (be_bytes 4 (of_signed 4 z))) with (ESInt 32 (to_signed 32 (be (be_bytes 4 (of_signed 4 z))))).
             now rewrite be_be_bytes, signed_4 by (try apply of_signed_range; lia).
          -- change ((211%N :: be_bytes 8 (of_signed 8 z)) ++ tail) with (211%N :: be_bytes 8 (of_signed 8 z) ++ tail).
             marker 211%N (MkScalar 8). change 8%N with (N.of_nat 8). rewrite take_field.
             change (scalar_ev 211 (be_bytes 8 (of_signed 8 z))) with (ESInt 64 (to_signed 64 (be (be_bytes 8 (of_signed 8 z))))).
             now rewrite be_be_bytes, signed_8 by (try apply of_signed_range; lia).
  Qed.

  Lemma D_f32_val b tail d : (b < 4294967296)%N -> D (enc_val (VF32 b) ++ tail) d = (evs (VF32 b), DOk tail).
  Proof.
    intros Hb. change (enc_val (VF32 b) ++ tail) with (202%N :: (be_bytes 4 b ++ []) ++ tail). rewrite app_nil_r.
    marker 202%N (MkScalar 4). change 4%N with (N.of_nat 4). rewrite take_field.
    change (scalar_ev 202 (be_bytes 4 b)) with (EF32 (be (be_bytes 4 b))).
    now rewrite be_be_bytes by (change (256 ^ N.of_nat 4)%N with 4294967296%N; lia).
  Qed.

  Lemma D_f64_val b tail d : (b < 18446744073709551616)%N -> D (enc_val (VF64 b) ++ tail) d = (evs (VF64 b), DOk tail).
  Proof.
    intros Hb. change (enc_val (VF64 b) ++ tail) with (203%N :: (be_bytes 8 b ++ []) ++ tail). rewrite app_nil_r.
    marker 203%N (MkScalar 8). change 8%N with (N.of_nat 8). rewrite take_field.
    change (scalar_ev 203 (be_bytes 8 b)) with (EF64 (be (be_bytes 8 b))).
    now rewrite be_be_bytes by (change (256 ^ N.of_nat 8)%N with 18446744073709551616%N; lia).
  Qed.

  Lemma d_len_field w n tail (k : N -> bytes -> list ev * dres) :
    (n < 256 ^ N.of_nat w)%N -> d_len w (be_bytes w n ++ tail) k = k n tail.
  Proof. intros H. unfold d_len. now rewrite take_field, be_be_bytes. Qed.

  Lemma d_len_1 n tail (k : N -> bytes -> list ev * dres) : d_len 1 (n :: tail) k = k n tail.
  Proof.
    unfold d_len. change (n :: tail) with ([n] ++ tail).
    rewrite (take_n_app_exact [n] tail (N.of_nat 1) eq_refl). now rewrite be_single.
  Qed.

  Lemma d_str_exact s tail : d_str utf8_valid (len_n s) (s ++ tail) = ([if utf8_valid s then EStr s else EBytes s], DOk tail).
  Proof. unfold d_str. now rewrite (take_n_app_exact s tail _ eq_refl). Qed.

  Lemma d_bin_exact s tail : d_bin (len_n s) (s ++ tail) = ([EBytes s], DOk tail).
  Proof. unfold d_bin. now rewrite (take_n_app_exact s tail _ eq_refl). Qed.

  Lemma D_str_val s tail d : (len_n s < 4294967296)%N -> utf8_valid s = true ->
    D (enc_val (VStr s) ++ tail) d = (evs (VStr s), DOk tail).
  Proof.
    intros Hn Hu. rewrite (enc_val_single (EStr s) (VStr s) eq_refl). cbn [enc_ev evs]. rewrite <- app_assoc.
    unfold enc_str_len. set (n := len_n s) in *.
    destruct (n <? 32)%N eqn:E1.
    - cbn [app]. rewrite D_cons, (classify_strfix (160 + n)) by lia. cbn [is_coll]. unfold MsgpackDecProofs.leaf_dec.
      rewrite classify_strfix by lia. cbv beta iota. replace (160 + n - 160)%N with n by lia.
      subst n. now rewrite d_str_exact, Hu.
    - destruct (n <? 256)%N eqn:E2.
      + change ([217%N; n] ++ s ++ tail) with (217%N :: n :: s ++ tail). marker 217%N (MkStrLen 1).
        rewrite d_len_1. subst n. now rewrite d_str_exact, Hu.
      + destruct (n <? 65536)%N eqn:E3.
        * change ((218%N :: be_bytes 2 n) ++ s ++ tail) with (218%N :: be_bytes 2 n ++ s ++ tail). marker 218%N (MkStrLen 2).
          rewrite d_len_field by (change (256 ^ N.of_nat 2)%N with 65536%N; lia). subst n. now rewrite d_str_exact, Hu.
        * change ((219%N :: be_bytes 4 n) ++ s ++ tail) with (219%N :: be_bytes 4 n ++ s ++ tail). marker 219%N (MkStrLen 4).
          rewrite d_len_field by (change (256 ^ N.of_nat 4)%N with 4294967296%N; lia). subst n. now rewrite d_str_exact, Hu.
  Qed.

  Lemma D_bin_val s tail d : (len_n s < 4294967296)%N ->
    D (enc_val (VBin s) ++ tail) d = (evs (VBin s), DOk tail).
  Proof.
    intros Hn. rewrite (enc_val_single (EBytes s) (VBin s) eq_refl). cbn [enc_ev evs]. rewrite <- app_assoc.
    unfold enc_bin_len. set (n := len_n s) in *.
    destruct (n <? 256)%N eqn:E2.
    - change ([196%N; n] ++ s ++ tail) with (196%N :: n :: s ++ tail). marker 196%N (MkBinLen 1).
      rewrite d_len_1. subst n. now rewrite d_bin_exact.
    - destruct (n <? 65536)%N eqn:E3.
      + change ((197%N :: be_bytes 2 n) ++ s ++ tail) with (197%N :: be_bytes 2 n ++ s ++ tail). marker 197%N (MkBinLen 2).
        rewrite d_len_field by (change (256 ^ N.of_nat 2)%N with 65536%N; lia). subst n. now rewrite d_bin_exact.
      + change ((198%N :: be_bytes 4 n) ++ s ++ tail) with (198%N :: be_bytes 4 n ++ s ++ tail). marker 198%N (MkBinLen 4).
        rewrite d_len_field by (change (256 ^ N.of_nat 4)%N with 4294967296%N; lia). subst n. now rewrite d_bin_exact.
  Qed.

  (* ---------- collection headers ---------- *)

  Lemma hdr_array n rest : (n < 4294967296)%N ->
    exists m tl, enc_array_len n ++ rest = m :: tl /\ is_coll (classify m) = true /\ coll_hdr m tl = Some (false, n, rest).
  Proof.
    intros Hn. unfold enc_array_len.
    destruct (n <? 16)%N eqn:E1.
    - exists (144 + n)%N, rest. split; [reflexivity|]. unfold coll_hdr.
      rewrite classify_arrfix by lia. replace (144 + n - 144)%N with n by lia. now split.
    - destruct (n <? 65536)%N eqn:E2.
      + exists 220%N, (be_bytes 2 n ++ rest). split; [reflexivity|]. unfold coll_hdr.
        change (classify 220) with (MkArrLen 2). split; [reflexivity|].
        now rewrite take_field, be_be_bytes by (change (256 ^ N.of_nat 2)%N with 65536%N; lia).
      + exists 221%N, (be_bytes 4 n ++ rest). split; [reflexivity|]. unfold coll_hdr.
        change (classify 221) with (MkArrLen 4). split; [reflexivity|].
        now rewrite take_field, be_be_bytes by (change (256 ^ N.of_nat 4)%N with 4294967296%N; lia).
  Qed.

  Lemma hdr_map n rest : (n < 4294967296)%N ->
    exists m tl, enc_map_len n ++ rest = m :: tl /\ is_coll (classify m) = true /\ coll_hdr m tl = Some (true, n, rest).
  Proof.
    intros Hn. unfold enc_map_len.
    destruct (n <? 16)%N eqn:E1.
    - exists (128 + n)%N, rest. split; [reflexivity|]. unfold coll_hdr.
      rewrite classify_mapfix by lia. replace (128 + n - 128)%N with n by lia. now split.
    - destruct (n <? 65536)%N eqn:E2.
      + exists 222%N, (be_bytes 2 n ++ rest). split; [reflexivity|]. unfold coll_hdr.
        change (classify 222) with (MkMapLen 2). split; [reflexivity|].
        now rewrite take_field, be_be_bytes by (change (256 ^ N.of_nat 2)%N with 65536%N; lia).
      + exists 223%N, (be_bytes 4 n ++ rest). split; [reflexivity|]. unfold coll_hdr.
        change (classify 223) with (MkMapLen 4). split; [reflexivity|].
        now rewrite take_field, be_be_bytes by (change (256 ^ N.of_nat 4)%N with 4294967296%N; lia).
  Qed.

  (* ---------- sequences of values ---------- *)

  Lemma enc_evs_app a b : enc_evs (a ++ b) = enc_evs a ++ enc_evs b.
  Proof. unfold enc_evs. apply flat_map_app. Qed.

  Lemma enc_evs_flat vs : enc_evs (flat_map evs vs) = flat_map enc_val vs.
  Proof.
    induction vs as [|v vs IH]; [reflexivity|]. cbn [flat_map]. rewrite enc_evs_app, IH. reflexivity.
  Qed.

  Lemma evs_flatten kvs :
    flat_map (fun kv : mval * mval => let (k, x) := kv in evs k ++ evs x) kvs = flat_map evs (flatten kvs).
  Proof.
    induction kvs as [|[k x] kvs IH]; [reflexivity|].
    cbn [flat_map flatten fst snd app]. rewrite IH, <- app_assoc. reflexivity.
  Qed.

  Lemma lenN_flatten kvs : lenN (flatten kvs) = (2 * lenN kvs)%N.
  Proof.
    unfold lenN. induction kvs as [|[k x] kvs IH]; [reflexivity|].
    cbn [flatten flat_map fst snd app length]. fold (flatten kvs). lia.
  Qed.

  Lemma enc_val_arr vs : enc_val (VArr vs) = enc_array_len (lenN vs) ++ flat_map enc_val vs.
  Proof.
    unfold enc_val at 1. cbn [evs]. change (ESeq (lenN vs) :: flat_map evs vs ++ [ESeqEnd]) with ([ESeq (lenN vs)] ++ flat_map evs vs ++ [ESeqEnd]).
    rewrite !enc_evs_app, enc_evs_flat. unfold enc_evs. cbn [flat_map enc_ev]. now rewrite !app_nil_r.
  Qed.

  Lemma enc_val_map kvs : enc_val (VMap kvs) = enc_map_len (lenN kvs) ++ flat_map enc_val (flatten kvs).
  Proof.
    unfold enc_val at 1. cbn [evs]. rewrite evs_flatten.
    change (EMap (lenN kvs) :: flat_map evs (flatten kvs) ++ [EMapEnd]) with ([EMap (lenN kvs)] ++ flat_map evs (flatten kvs) ++ [EMapEnd]).
    rewrite !enc_evs_app, enc_evs_flat. unfold enc_evs. cbn [flat_map enc_ev]. now rewrite !app_nil_r.
  Qed.

  Lemma DS_vals vs tail d :
    Forall (fun v => forall tail, D (enc_val v ++ tail) d = (evs v, DOk tail)) vs ->
    DS (flat_map enc_val vs ++ tail) (lenN vs) d = (flat_map evs vs, DOk tail).
  Proof.
    induction 1 as [|v vs Hv Hvs IH].
    - rewrite DS_eq. reflexivity.
    - cbn [flat_map]. rewrite <- app_assoc, DS_eq.
      destruct (lenN (v :: vs) =? 0)%N eqn:E; [unfold lenN in E; cbn [length] in E; lia|].
      rewrite Hv. replace (lenN (v :: vs) - 1)%N with (lenN vs) by (unfold lenN; cbn [length]; lia).
      now rewrite IH.
  Qed.

  (* ---------- induction over values ---------- *)

  Lemma mval_ind2 (P : mval -> Prop) :
    P VNil -> (forall b, P (VBool b)) -> (forall n, P (VUInt n)) -> (forall z, P (VNeg z)) ->
    (forall b, P (VF32 b)) -> (forall b, P (VF64 b)) -> (forall s, P (VStr s)) -> (forall s, P (VBin s)) ->
    (forall vs, Forall P vs -> P (VArr vs)) ->
    (forall kvs, Forall (fun kv => P (fst kv) /\ P (snd kv)) kvs -> P (VMap kvs)) ->
    forall v, P v.
  Proof.
    intros H1 H2 H3 H4 H5 H6 H7 H8 Harr Hmap. fix IH 1. intros [ |b|n|z|b|b|s|s|vs|kvs].
    - exact H1.
    - apply H2.
    - apply H3.
    - apply H4.
    - apply H5.
    - apply H6.
    - apply H7.
    - apply H8.
    - apply Harr. induction vs as [|v vs IHvs]; constructor; [apply IH|exact IHvs].
    - apply Hmap. induction kvs as [|[k x] kvs IHk]; constructor; [split; apply IH|exact IHk].
  Qed.

  Lemma depth_arr_in vs v : In v vs -> depth v < depth (VArr vs).
  Proof.
    cbn [depth]. induction vs as [|a vs IH]; [contradiction|].
    intros [->|Hin]; cbn [fold_right]; [lia|]. specialize (IH Hin). lia.
  Qed.

  Lemma depth_map_in kvs k x : In (k, x) kvs -> depth k < depth (VMap kvs) /\ depth x < depth (VMap kvs).
  Proof.
    cbn [depth]. induction kvs as [|[a b] kvs IH]; [contradiction|].
    intros [E|Hin]; cbn [fold_right]; [injection E as -> ->; lia|]. specialize (IH Hin). lia.
  Qed.

  Lemma in_flatten kvs v : In v (flatten kvs) -> exists k x, In (k, x) kvs /\ (v = k \/ v = x).
  Proof.
    unfold flatten. rewrite in_flat_map. intros ([k x] & Hin & Hv). cbn [fst snd In] in Hv.
    exists k, x. split; [exact Hin|]. destruct Hv as [<-|[<-|[]]]; auto.
  Qed.

  (* ---------- the codec round trip ---------- *)

  Theorem decode_encode : forall v, wfb v = true -> forall d tail, depth v < d ->
    D (enc_val v ++ tail) d = (evs v, DOk tail).
  Proof.
    induction v as [ |b|n|z|b|b|s|s|vs IHvs|kvs IHkvs] using mval_ind2; intros Hwf d tail Hd; cbn [wfb] in Hwf.
    - apply D_nil_val.
    - apply D_bool_val.
    - apply D_uint_val. lia.
    - apply D_neg_val. lia.
    - apply D_f32_val. lia.
    - apply D_f64_val. lia.
    - apply andb_true_iff in Hwf as [Hn Hu]. apply D_str_val; [lia|exact Hu].
    - apply D_bin_val. lia.
    - apply andb_true_iff in Hwf as [Hn Hall]. rewrite forallb_forall in Hall. rewrite Forall_forall in IHvs.
      rewrite enc_val_arr, <- app_assoc.
      destruct (hdr_array (lenN vs) (flat_map enc_val vs ++ tail)) as (m & tl & E & Hc & Hh); [lia|].
      rewrite E, D_cons, Hc, Hh.
      assert (Hd1 : 0 < d - 1) by (cbn [depth] in Hd; lia).
      destruct (d - 1 =? 0) eqn:E0; [lia|].
      cbn [coll_count]. rewrite DS_vals; [reflexivity|].
      apply Forall_forall. intros x Hx tail'. apply IHvs; [exact Hx|now apply Hall|].
      pose proof (depth_arr_in vs x Hx). lia.
    - apply andb_true_iff in Hwf as [Hn Hall]. rewrite forallb_forall in Hall. rewrite Forall_forall in IHkvs.
      rewrite enc_val_map, <- app_assoc.
      destruct (hdr_map (lenN kvs) (flat_map enc_val (flatten kvs) ++ tail)) as (m & tl & E & Hc & Hh); [lia|].
      rewrite E, D_cons, Hc, Hh.
      assert (Hd1 : 0 < d - 1) by (cbn [depth] in Hd; lia).
      destruct (d - 1 =? 0) eqn:E0; [lia|].
      cbn [coll_count]. rewrite <- lenN_flatten, DS_vals.
      + cbn [coll_result coll_open coll_close evs]. now rewrite evs_flatten.
      + apply Forall_forall. intros v Hv tail'.
        destruct (in_flatten kvs v Hv) as (k & x & Hin & Hkx).
        specialize (IHkvs (k, x) Hin). cbn [fst snd] in IHkvs. specialize (Hall (k, x) Hin). cbn beta iota in Hall.
        apply andb_true_iff in Hall as [Hk Hx]. destruct (depth_map_in kvs k x Hin) as [Dk Dx].
        destruct Hkx as [->| ->]; [apply (proj1 IHkvs)|apply (proj2 IHkvs)]; auto; lia.
  Qed.
End Roundtrip.

(* ---------- consequences for xt ---------- *)

Section Identity.
  Variable utf8_valid : bytes -> bool.
  Notation wfb := (wfb utf8_valid).

  (* a value rmp can write and rmp-serde will read back under xt's depth limit:
     at most 1023 collections around its innermost scalar *)
  Definition encodable (v : mval) : Prop := wfb v = true /\ depth v < DEPTH_LIMIT.

  Lemma enc_val_nonempty v : encodable v -> enc_val v <> [].
  Proof.
    intros [Hw Hd] E. pose proof (decode_encode utf8_valid false v Hw DEPTH_LIMIT [] Hd) as H.
    rewrite E in H. cbn [app] in H. rewrite D_nil in H. discriminate.
  Qed.

  Lemma reader_stream : forall vs fuel, Forall encodable vs -> length (flat_map enc_val vs) < fuel ->
    reader_loop utf8_valid fuel (flat_map enc_val vs) = (map evs vs, MDone).
  Proof.
    induction vs as [|v vs IH]; intros fuel Hall Hf.
    - destruct fuel as [|f]; [cbn in Hf; lia|]. reflexivity.
    - inversion Hall as [|? ? Hv Hvs]; subst. cbn [flat_map map] in *.
      destruct fuel as [|f]; [lia|].
      pose proof (enc_val_nonempty v Hv) as Hne. destruct Hv as [Hw Hd].
      pose proof (decode_encode utf8_valid false v Hw DEPTH_LIMIT (flat_map enc_val vs) Hd) as Hdec.
      destruct (enc_val v) as [|b tl] eqn:Eb; [congruence|].
      cbn [app] in *. cbn [reader_loop].
      change (decode utf8_valid false (b :: tl ++ flat_map enc_val vs) DEPTH_LIMIT)
        with (D utf8_valid false (b :: tl ++ flat_map enc_val vs) DEPTH_LIMIT).
      rewrite Hdec. rewrite IH; [reflexivity|exact Hvs|].
      cbn [length] in Hf. rewrite app_length in Hf. lia.
  Qed.

  Lemma enc_docs vs : flat_map enc_evs (map evs vs) = flat_map enc_val vs.
  Proof. induction vs as [|v vs IH]; [reflexivity|]. cbn [map flat_map]. now rewrite IH. Qed.

  (* MessagePack -> MessagePack on a stream of values xt's encoder wrote: every
     document is read back with exactly the events it was written from, the run
     succeeds, and the bytes written are the bytes read. *)
  Theorem reader_identity vs : Forall encodable vs ->
    let r := transcode_reader utf8_valid (flat_map enc_val vs) in
    fst r = map evs vs /\ mm_ok r = true /\ mm_output r = flat_map enc_val vs.
  Proof.
    intros Hall. cbn zeta. unfold transcode_reader. rewrite reader_stream by (auto; lia).
    unfold mm_ok, mm_output. cbn [fst snd]. now rewrite app_nil_r, enc_docs.
  Qed.

  Theorem slice_identity vs : Forall encodable vs ->
    let s := transcode_slice utf8_valid (flat_map enc_val vs) in
    fst s = map evs vs /\ mm_ok s = true /\ mm_output s = flat_map enc_val vs.
  Proof.
    intros Hall. cbn zeta.
    destruct (slice_reader_agree utf8_valid (flat_map enc_val vs)) as (Hd & Hok & _ & Hout).
    destruct (reader_identity vs Hall) as (Rd & Rok & Rout). cbn zeta in *.
    rewrite Hd, Hok, Rd, Rok. repeat split. rewrite Hout by congruence. exact Rout.
  Qed.

  (* distinct encodable values never share an encoding, and no encoding is a
     proper prefix of another: the events are determined by the bytes *)
  Theorem encoding_determines_events v v' t t' :
    encodable v -> encodable v' -> enc_val v ++ t = enc_val v' ++ t' -> evs v = evs v' /\ t = t'.
  Proof.
    intros [Hw Hd] [Hw' Hd'] E.
    pose proof (decode_encode utf8_valid false v Hw DEPTH_LIMIT t Hd) as H.
    pose proof (decode_encode utf8_valid false v' Hw' DEPTH_LIMIT t' Hd') as H'.
    rewrite E in H. rewrite H in H'. injection H' as -> ->. now split.
  Qed.

  Definition is_collection (v : mval) : bool := match v with VArr _ | VMap _ => true | _ => false end.

  (* what xt writes for a collection-rooted document is recognised as MessagePack *)
  Theorem own_output_matches v tail : encodable v -> is_collection v = true ->
    msgpack_matches utf8_valid (enc_val v ++ tail) = true.
  Proof.
    intros [Hw Hd] Hc. pose proof (decode_encode utf8_valid true v Hw DEPTH_LIMIT tail Hd) as H.
    unfold msgpack_matches.
    assert (Hm : exists b rest, enc_val v ++ tail = b :: rest /\ is_collection_marker b = true).
    { destruct v as [ | | | | | | | |vs|kvs]; try discriminate.
      - rewrite enc_val_arr. destruct (SelfDetectProofs.array_header_is_marker (lenN vs)) as (b & rest & E & M).
        rewrite E. cbn [app]. now exists b, ((rest ++ flat_map enc_val vs) ++ tail).
      - rewrite enc_val_map. destruct (SelfDetectProofs.map_header_is_marker (lenN kvs)) as (b & rest & E & M).
        rewrite E. cbn [app]. now exists b, ((rest ++ flat_map enc_val (flatten kvs)) ++ tail). }
    destruct Hm as (b & rest & E & M). rewrite E in *. rewrite M.
    change (decode utf8_valid true (b :: rest) DEPTH_LIMIT) with (D utf8_valid true (b :: rest) DEPTH_LIMIT).
    now rewrite H.
  Qed.
End Identity.

(* the premises are satisfiable: a nested, mixed document *)
Example codec_nonvacuous :
  let v := VMap [(VStr [97], VArr [VUInt 1; VNeg (-200); VF64 4614253070214989087; VNil; VBool true]);
                 (VStr [98], VMap [(VArr [VBin [0; 255]], VUInt 70000)])]%N in
  encodable (fun _ => true) v /\ is_collection v = true /\
  fst (transcode_slice (fun _ => true) (enc_val v)) = [evs v].
Proof. vm_compute. repeat split; lia. Qed.
