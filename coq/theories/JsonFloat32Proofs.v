(* JsonFloat32Proofs.v — the formal record of the two known findings on 32-bit
   floats (K-C06-f32-small-magnitude-spelling, K-C06-f32-large-magnitude-spelling):
   on the models of serde_json's serialize_f32 / serialize_f64 and of its reader,
   the JSON text xt writes for the witness values is NOT a fixed point of
   JSON -> JSON - it is translated, to another spelling - and it is one for
   values between the two decades. *)
From XtModel Require Import Base Utf8 MsgpackModel JsonModel JsonWriteModel JsonFloatModel JsonFloat32Model.

Definition bytes_eqb (a b : bytes) : bool := if list_eq_dec N.eq_dec a b then true else false.

(* JSON -> JSON translates the text [t], and to something else *)
Definition respelled (t : bytes) : bool :=
  match json_to_json_f t with
  | Some o => negb (bytes_eqb o t)
  | None => false
  end.

(* JSON -> JSON reproduces the text [t] *)
Definition reproduced (t : bytes) : bool :=
  match json_to_json_f t with
  | Some o => bytes_eqb o t
  | None => false
  end.

(* -5.894184e-6 (bits b6c5c6a8): written 0.00000..., rewritten in exponent form *)
Lemma f32_small_magnitude_witness : respelled (json_f32 3066414760 ++ [10%N]) = true.
Proof. vm_compute. reflexivity. Qed.

(* 1e14 (bits 56b5e621): written in exponent form, rewritten positionally *)
Lemma f32_large_magnitude_witness : respelled (json_f32 1454761505 ++ [10%N]) = true.
Proof. vm_compute. reflexivity. Qed.

(* between the two decades the two printers agree: 0.1, 1.0, 1e10, 16777216 *)
Lemma f32_fixed_points_between :
  forallb (fun b => reproduced (json_f32 b ++ [10%N])) [1036831949; 1065353216; 1343554297; 1266679808]%N = true.
Proof. vm_compute. reflexivity. Qed.
