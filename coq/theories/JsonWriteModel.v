(* JsonWriteModel.v — serde_json's compact writer for the values JSON can carry,
   as xt's JSON output drives it (json.rs: one value, then a newline).

   A value is a tree; [jwrite] gives the bytes serde_json::Serializer writes for
   it: the shortest decimal form of integers, strings with serde_json's escape
   table (quote, backslash, \b \f \n \r \t, other controls as \u00XX, everything
   else raw), no whitespace.  How a float is spelled is ryu's business and is a
   parameter ([fmt_f64]); the theorems state what they need of it.

   [jevs] is what the reader model (JsonModel.parse_value) makes of such text:
   the visitor events xt would forward when reading it back. *)
From XtModel Require Import Base Utf8 MsgpackModel JsonModel.

Inductive jval :=
| JNull
| JBool (b : bool)
| JUInt (n : N)                    (* 0 .. 2^64-1 *)
| JNegInt (z : Z)                  (* -2^63 .. -1 *)
| JFloat (bits : N)                (* a finite binary64 *)
| JStr (s : bytes)                 (* valid UTF-8 *)
| JArr (vs : list jval)
| JObj (kvs : list (bytes * jval)).

(* ---------- integers ---------- *)

(* decimal digits of n, most significant first, in front of acc *)
Fixpoint to_digits (fuel : nat) (n : N) (acc : bytes) : bytes :=
  match fuel with
  | O => acc
  | S f =>
      let d := (48 + n mod 10)%N in
      if (n / 10 =? 0)%N then d :: acc else to_digits f (n / 10)%N (d :: acc)
  end.

Definition to_dec (n : N) : bytes := to_digits (S (N.to_nat (N.log2 n))) n [].

(* ---------- strings ---------- *)

Definition hexdig (d : N) : N := if (d <? 10)%N then (48 + d)%N else (87 + d)%N.

Definition escape_byte (b : N) : bytes :=
  if (b =? 34)%N then [92; 34]%N
  else if (b =? 92)%N then [92; 92]%N
  else if (b =? 8)%N then [92; 98]%N
  else if (b =? 12)%N then [92; 102]%N
  else if (b =? 10)%N then [92; 110]%N
  else if (b =? 13)%N then [92; 114]%N
  else if (b =? 9)%N then [92; 116]%N
  else if (b <? 32)%N then [92; 117; 48; 48; hexdig (b / 16); hexdig (b mod 16)]%N
  else [b].

Definition jescape (s : bytes) : bytes := flat_map escape_byte s.
Definition jstring (s : bytes) : bytes := 34%N :: jescape s ++ [34%N].

(* ---------- values ---------- *)

Fixpoint join_comma (parts : list bytes) : bytes :=
  match parts with
  | [] => []
  | [p] => p
  | p :: rest => p ++ 44%N :: join_comma rest
  end.

Section Write.
  Variable fmt_f64 : N -> bytes.

  Fixpoint jwrite (v : jval) : bytes :=
    match v with
    | JNull => [110; 117; 108; 108]%N
    | JBool true => [116; 114; 117; 101]%N
    | JBool false => [102; 97; 108; 115; 101]%N
    | JUInt n => to_dec n
    | JNegInt z => 45%N :: to_dec (Z.to_N (- z))
    | JFloat b => fmt_f64 b
    | JStr s => jstring s
    | JArr vs => 91%N :: join_comma (map jwrite vs) ++ [93%N]
    | JObj kvs => 123%N :: join_comma (map (fun kv : bytes * jval => let (k, x) := kv in jstring k ++ 58%N :: jwrite x) kvs) ++ [125%N]
    end.

  (* xt's JSON output for a stream of documents: each value, then a newline *)
  Definition jwrite_docs (vs : list jval) : bytes := flat_map (fun v => jwrite v ++ [10%N]) vs.
End Write.

Definition lenL {A} (l : list A) : N := N.of_nat (length l).

Fixpoint jevs (v : jval) : list ev :=
  match v with
  | JNull => [EUnit]
  | JBool b => [EBool b]
  | JUInt n => [EUInt 64 n]
  | JNegInt z => [ESInt 64 z]
  | JFloat b => [EF64 b]
  | JStr s => [EStr s]
  | JArr vs => ESeq (lenL vs) :: flat_map jevs vs ++ [ESeqEnd]
  | JObj kvs => EMap (lenL kvs) :: flat_map (fun kv : bytes * jval => let (k, x) := kv in EStr k :: jevs x) kvs ++ [EMapEnd]
  end.

Fixpoint jdepth (v : jval) : nat :=
  match v with
  | JArr vs => S (fold_right (fun x acc => Nat.max (jdepth x) acc) 0 vs)
  | JObj kvs => S (fold_right (fun (kv : bytes * jval) acc => let (_, x) := kv in Nat.max (jdepth x) acc) 0 kvs)
  | _ => 0
  end.

(* ---------- from the reader's events back to a tree (used to run the writer
   model on what the reader model read; not used in any theorem) ---------- *)

Fixpoint tree_of (fuel : nat) (es : list ev) {struct fuel} : option (jval * list ev) :=
  match fuel with
  | O => None
  | S f =>
      match es with
      | EUnit :: r => Some (JNull, r)
      | EBool b :: r => Some (JBool b, r)
      | EUInt _ n :: r => Some (JUInt n, r)
      | ESInt _ z :: r => Some (JNegInt z, r)
      | EF64 b :: r => Some (JFloat b, r)
      | EStr s :: r => Some (JStr s, r)
      | ESeq _ :: r =>
          match elems_of f r with
          | Some (vs, r') => Some (JArr vs, r')
          | None => None
          end
      | EMap _ :: r =>
          match members_of f r with
          | Some (kvs, r') => Some (JObj kvs, r')
          | None => None
          end
      | _ => None
      end
  end
with elems_of (fuel : nat) (es : list ev) {struct fuel} : option (list jval * list ev) :=
  match fuel with
  | O => None
  | S f =>
      match es with
      | ESeqEnd :: r => Some ([], r)
      | _ =>
          match tree_of f es with
          | Some (v, r) =>
              match elems_of f r with
              | Some (vs, r') => Some (v :: vs, r')
              | None => None
              end
          | None => None
          end
      end
  end
with members_of (fuel : nat) (es : list ev) {struct fuel} : option (list (bytes * jval) * list ev) :=
  match fuel with
  | O => None
  | S f =>
      match es with
      | EMapEnd :: r => Some ([], r)
      | EStr k :: r =>
          match tree_of f r with
          | Some (v, r1) =>
              match members_of f r1 with
              | Some (kvs, r') => Some ((k, v) :: kvs, r')
              | None => None
              end
          | None => None
          end
      | _ => None
      end
  end.

Fixpoint has_float (es : list ev) : bool :=
  match es with
  | EF64 _ :: _ | EF32 _ :: _ => true
  | _ :: r => has_float r
  | [] => false
  end.

(* JSON -> JSON through the model: read with the slice loop, write every
   document back.  None when some document holds a float (whose spelling is
   not modelled) or the input is not translated to the end. *)
Definition json_to_json (inp : bytes) : option bytes :=
  match json_slice inp with
  | (docs, JDone) =>
      if existsb has_float docs then None
      else
        let trees := map (fun es => tree_of (S (length es)) es) docs in
        if forallb (fun t => match t with Some (_, []) => true | _ => false end) trees then
          Some (flat_map (fun t => match t with Some (v, _) => jwrite (fun _ => []) v ++ [10%N] | None => [] end) trees)
        else None
  | _ => None
  end.

(* ---------- MessagePack -> JSON: the JSON writer driven by a reader's events ---------- *)

(* one line per document; None when some document is not a value the writer
   model covers (binary data, 32-bit floats, keys that are not strings) *)
Definition json_of_docs (fmt : N -> bytes) (docs : list (list ev)) : option bytes :=
  let trees := map (fun es => tree_of (S (length es)) es) docs in
  if forallb (fun t => match t with Some (_, []) => true | _ => false end) trees then
    Some (flat_map (fun t => match t with Some (v, _) => jwrite fmt v ++ [10%N] | None => [] end) trees)
  else None.

(* MessagePack -> JSON through the model: read with the slice loop, write every
   document.  None when the input is not translated to the end, or holds a
   float (whose spelling is not modelled) or a value outside the writer model. *)
Definition msgpack_to_json (inp : bytes) : option bytes :=
  let r := transcode_slice utf8_valid inp in
  if mm_ok r then
    if existsb has_float (fst r) then None else json_of_docs (fun _ => []) (fst r)
  else None.
