(* FidelityModel.v — what "forwarding every value unchanged" means for the two
   ways xt moves a document from a deserializer to a serializer: the streaming
   transcoder (TranscodeModel.v) and the borrowed Value of
   src/transcode/value.rs (deserialize into a tree, then serialize the tree).
   Definitions only. *)
From XtModel Require Import Base TranscodeModel.

(* A script in which nothing fails. *)
Fixpoint clean (sc : dscript) : bool :=
  match sc with
  | DFail _ => false
  | DScalar _ _ => true
  | DSeq _ els t po =>
      forallb clean els && match t with TEnd => true | TErr _ => false end &&
      match po with None => true | Some _ => false end
  | DMap _ es t po =>
      forallb (fun kv => let '(k, v) := kv in clean k && clean v) es &&
      match t with TEnd => true | TErr _ => false end &&
      match po with None => true | Some _ => false end
  end.

(* The canonical serializer call sequence of a document: every scalar through
   the serialize method of its own type with its own payload, every element,
   key and value in order, nothing collected or reordered. *)
Fixpoint calls_of (sc : dscript) : list scall :=
  match sc with
  | DFail _ => []
  | DScalar m p => [CScalar (forward m) p]
  | DSeq h els _ _ =>
      CSeq h :: flat_map (fun e => CElemPre :: calls_of e ++ [CElemPost]) els ++ [CSeqEnd]
  | DMap h es _ _ =>
      CMap h :: flat_map (fun kv => let '(k, v) := kv in
                            CKeyPre :: calls_of k ++ [CKeyPost] ++ CValuePre :: calls_of v ++ [CValuePost]) es
             ++ [CMapEnd]
  end.

Definition log_after (ss : sstate) (cs : list scall) : sstate :=
  {| counter := counter ss + length cs; calls := rev cs ++ calls ss |}.

Definition never_fails : nat -> option nat := fun _ => None.

(* ---------- transcode::Value (value.rs) ---------- *)

Inductive value :=
| VScalar (m : vmethod) (payload : N)
| VSeq (items : list value)
| VMap (entries : list (value * value)).

(* Value::deserialize over a scripted deserializer: visit_seq / visit_map pull
   every element with `?`, then the deserializer may fail on its own. *)
Fixpoint value_de (sc : dscript) : result derr value :=
  match sc with
  | DFail e => Err (DE e)
  | DScalar m p => Ok (VScalar m p)
  | DSeq _ els t po =>
      let fix loop (l : list dscript) : result derr (list value) :=
        match l with
        | [] => match t with TErr e => Err (DE e) | TEnd => Ok [] end
        | e :: l' =>
            match value_de e with
            | Err x => Err x
            | Ok v => match loop l' with Err x => Err x | Ok vs => Ok (v :: vs) end
            end
        end in
      match loop els with
      | Err x => Err x
      | Ok vs => match po with Some e => Err (DE e) | None => Ok (VSeq vs) end
      end
  | DMap _ es t po =>
      let fix loop (l : list (dscript * dscript)) : result derr (list (value * value)) :=
        match l with
        | [] => match t with TErr e => Err (DE e) | TEnd => Ok [] end
        | (k, v) :: l' =>
            match value_de k with
            | Err x => Err x
            | Ok kv =>
                match value_de v with
                | Err x => Err x
                | Ok vv => match loop l' with Err x => Err x | Ok r => Ok ((kv, vv) :: r) end
                end
            end
        end in
      match loop es with
      | Err x => Err x
      | Ok r => match po with Some e => Err (DE e) | None => Ok (VMap r) end
      end
  end.

(* The 8 bytes the harness uses as the content of a bytes payload. *)
Fixpoint be8 (w : nat) (n : N) : list N :=
  match w with O => [] | S w' => be8 w' (n / 256)%N ++ [(n mod 256)%N] end.

(* Value::serialize with a serializer that never fails: the calls it makes.
   Sequences and maps announce their length; a byte string goes out as a
   sequence of u8 (what Serialize for Cow<[u8]> does). *)
Fixpoint value_calls (v : value) : list scall :=
  match v with
  | VScalar VBytes p =>
      let bs := be8 8 p in
      CSeq (Some (N.of_nat (length bs))) ::
      flat_map (fun b => [CElemPre; CScalar SU8 b; CElemPost]) bs ++ [CSeqEnd]
  | VScalar m p => [CScalar (forward m) p]
  | VSeq items =>
      CSeq (Some (N.of_nat (length items))) ::
      flat_map (fun e => CElemPre :: value_calls e ++ [CElemPost]) items ++ [CSeqEnd]
  | VMap entries =>
      CMap (Some (N.of_nat (length entries))) ::
      flat_map (fun kv => let '(k, x) := kv in
                  CKeyPre :: value_calls k ++ [CKeyPost] ++ CValuePre :: value_calls x ++ [CValuePost]) entries
      ++ [CMapEnd]
  end.

Definition value_roundtrip (sc : dscript) : result derr (list scall) :=
  match value_de sc with Err e => Err e | Ok v => Ok (value_calls v) end.

(* calls_of with the size hints Value reports and bytes re-spelled as u8 sequences *)
Fixpoint calls_of_value (sc : dscript) : list scall :=
  match sc with
  | DFail _ => []
  | DScalar VBytes p =>
      let bs := be8 8 p in
      CSeq (Some (N.of_nat (length bs))) ::
      flat_map (fun b => [CElemPre; CScalar SU8 b; CElemPost]) bs ++ [CSeqEnd]
  | DScalar m p => [CScalar (forward m) p]
  | DSeq _ els _ _ =>
      CSeq (Some (N.of_nat (length els))) ::
      flat_map (fun e => CElemPre :: calls_of_value e ++ [CElemPost]) els ++ [CSeqEnd]
  | DMap _ es _ _ =>
      CMap (Some (N.of_nat (length es))) ::
      flat_map (fun kv => let '(k, v) := kv in
                  CKeyPre :: calls_of_value k ++ [CKeyPost] ++ CValuePre :: calls_of_value v ++ [CValuePost]) es
      ++ [CMapEnd]
  end.
