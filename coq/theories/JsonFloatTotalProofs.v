(* JsonFloatTotalProofs.v — the search for the shortest digits (JsonFloatModel.v)
   succeeds on EVERY finite binary64: [ryu_ok b = true] whenever [f_finite b].
   The argument is the classical one, carried out on the models: cut the exact
   value x to a decimal c * 10^k with at least 18 digits (c = floor (x / 10^k),
   c >= 10^17); then x - c*10^k < x / 10^17 < x / 2^56, which is less than an
   eighth of the distance to the next binary64 below, so the correctly rounded
   conversion (F64Proofs.v) returns x itself.  The first exponent the search
   tries is such a k (a finite sweep over the 2098 possible binary exponents
   shows that the estimate [ryu_top] is close enough), so the search never
   comes back empty. *)
From XtModel Require Import Base Utf8 MsgpackModel JsonModel JsonWriteModel JsonWriteProofs JsonFloatModel F64Proofs JsonFloatProofs.
Require Import ZifyBool ZifyNat ZifyN.
Ltac Zify.zify_post_hook ::= Z.div_mod_to_equations.

Local Open Scope N_scope.

(* ---------- the value behind magnitude bits ---------- *)

Lemma mag_facts a : 0 < a -> a < inf_bits ->
  0 < f_mant a /\ f_mant a < 2 ^ 53 /\ (-1074 <= f_exp2 a <= 971)%Z /\
  (f_exp2 a = (-1074)%Z \/ 2 ^ 52 <= f_mant a) /\
  a = f_mant a + Z.to_N (1074 + f_exp2 a) * two52.
Proof.
  intros H0 Hi. unfold f_mant, f_exp2, f_bexp. unfold inf_bits in Hi.
  change two52 with 4503599627370496. change (2 ^ 53) with 9007199254740992. change (2 ^ 52) with 4503599627370496.
  pose proof (N.div_mod a 4503599627370496 ltac:(lia)) as E.
  pose proof (N.mod_lt a 4503599627370496 ltac:(lia)) as L.
  set (q := a / 4503599627370496) in *. set (r := a mod 4503599627370496) in *.
  destruct (q =? 0) eqn:Eq.
  - assert (q = 0) by lia. subst q. repeat split; lia.
  - repeat split; lia.
Qed.

Lemma f_num_eq a : f_num a = f_mant a * 2 ^ Z.to_N (f_exp2 a).
Proof.
  unfold f_num. destruct (0 <=? f_exp2 a)%Z eqn:E; [reflexivity|].
  replace (Z.to_N (f_exp2 a)) with 0 by lia. rewrite N.pow_0_r. lia.
Qed.

Lemma f_den_eq a : f_den a = 2 ^ Z.to_N (- f_exp2 a).
Proof.
  unfold f_den. destruct (0 <=? f_exp2 a)%Z eqn:E; [|reflexivity].
  replace (Z.to_N (- f_exp2 a)) with 0 by lia. reflexivity.
Qed.

Lemma scale10_eq a k : scale10 a k = (f_num a * 10 ^ Z.to_N (- k), f_den a * 10 ^ Z.to_N k).
Proof.
  unfold scale10. destruct (0 <=? k)%Z eqn:E.
  - replace (Z.to_N (- k)) with 0 by lia. rewrite N.pow_0_r, N.mul_1_r. reflexivity.
  - replace (Z.to_N k) with 0 by lia. rewrite N.pow_0_r, N.mul_1_r. reflexivity.
Qed.

Lemma dec_num_eq c k : dec_num c k = c * 10 ^ Z.to_N k.
Proof.
  unfold dec_num. destruct (0 <=? k)%Z eqn:E; [reflexivity|].
  replace (Z.to_N k) with 0 by lia. rewrite N.pow_0_r. lia.
Qed.

Lemma dec_den_eq k : dec_den k = 10 ^ Z.to_N (- k).
Proof.
  unfold dec_den. destruct (0 <=? k)%Z eqn:E; [|reflexivity].
  replace (Z.to_N (- k)) with 0 by lia. reflexivity.
Qed.

Lemma pow10_pos n : 0 < 10 ^ n.
Proof. apply N.neq_0_lt_0. apply N.pow_nonzero. discriminate. Qed.

(* ---------- a decimal this close below x converts to x ---------- *)

Lemma nearest_direct P Q m : 0 < Q -> P <= m * Q -> 8 * (m * Q) < Q + 8 * P -> nearest_even P Q m.
Proof.
  intros HQ H1 H2. unfold nearest_even. split; [nia|]. split; [nia|]. split; intros H; exfalso; nia.
Qed.

Lemma nearest_direct2 P Q m : 0 < Q -> P <= m * Q -> 8 * (m * Q) < Q + 8 * P -> nearest_even (2 * P) Q (2 * m).
Proof.
  intros HQ H1 H2. unfold nearest_even. split; [nia|]. split; [nia|]. split; intros H; exfalso; nia.
Qed.

Lemma round_back num den m sx a :
  0 < num -> 0 < den ->
  sc_n num sx <= m * sc_d den sx ->
  8 * (m * sc_d den sx) < sc_d den sx + 8 * sc_n num sx ->
  0 < m -> m < 2 ^ 53 -> (sx <= 1074)%Z -> (sx = 1074%Z \/ 2 ^ 52 <= m) ->
  a = m + Z.to_N (1074 - sx) * two52 ->
  let s := pick_scale num den in
  rne (qs num den s) (sc_n num s mod sc_d den s) (sc_d den s) + Z.to_N (1074 - s) * two52 = a.
Proof.
  intros Hn Hd H1 H2 Hm0 Hm Hsx Hnx Ha. cbv zeta.
  pose proof (pick_scale_normalised num den Hn Hd) as Hnorm.
  set (s := pick_scale num den) in *.
  pose proof (rne_nearest (sc_n num s) (sc_d den s) (sc_d_pos den s Hd)) as Hq.
  set (q' := rne (qs num den s) (sc_n num s mod sc_d den s) (sc_d den s)) in *.
  change (nearest_even (sc_n num s) (sc_d den s) q') in Hq.
  clearbody q'. clearbody s.
  set (P := sc_n num sx) in *. set (Q := sc_d den sx) in *.
  assert (HQ : 0 < Q) by (apply sc_d_pos; exact Hd).
  change (2 ^ 53) with 9007199254740992 in *. change (2 ^ 52) with 4503599627370496 in *. change two52 with 4503599627370496 in *.
  (* the quotient at scale sx *)
  assert (Hqs : qs num den sx = m \/ (qs num den sx = m - 1 /\ P < m * Q)).
  { unfold qs. fold P. fold Q. destruct (N.eq_dec P (m * Q)) as [E|E].
    - left. rewrite E. apply N.div_mul. lia.
    - right. split; [|lia]. symmetry. apply (N.div_unique P Q (m - 1) (P + Q - m * Q)); nia. }
  assert (Hcases : normalised num den sx \/
                   (m = 4503599627370496 /\ (sx < 1074)%Z /\ qs num den sx = m - 1)).
  { unfold normalised. change (2 ^ 53) with 9007199254740992. change (2 ^ 52) with 4503599627370496.
    destruct Hqs as [E|[E _]].
    - left. rewrite E. destruct Hnx as [->|Hx]; [left; split; [reflexivity|lia]|].
      destruct (Z.eq_dec sx 1074) as [->|Hne]; [left; split; [reflexivity|lia]|right; split; lia].
    - destruct Hnx as [->|Hx]; [left; left; split; [reflexivity|lia]|].
      destruct (Z.eq_dec sx 1074) as [->|Hne]; [left; left; split; [reflexivity|lia]|].
      destruct (N.eq_dec m 4503599627370496) as [->|Hm2].
      + right. repeat split; first [lia|exact E].
      + left. right. rewrite E. split; lia. }
  destruct Hcases as [Hnx'|(Em & Hlt & Eq)].
  - assert (s = sx) by (apply (normalised_unique num den); assumption). subst s.
    assert (q' = m).
    { apply (nearest_even_unique P Q); [exact HQ|exact Hq|]. apply nearest_direct; assumption. }
    lia.
  - assert (Hn1 : normalised num den (sx + 1)).
    { unfold normalised. change (2 ^ 53) with 9007199254740992. change (2 ^ 52) with 4503599627370496.
      destruct (qs_succ num den sx Hd) as [E|E]; rewrite Eq in E;
        (destruct (Z.eq_dec (sx + 1) 1074) as [E1|E1]; [left; split; [exact E1|lia]|right; split; lia]). }
    assert (s = (sx + 1)%Z) by (apply (normalised_unique num den); assumption). subst s.
    assert (q' = 2 * m).
    { apply (nearest_even_unique (sc_n num (sx + 1)) (sc_d den (sx + 1))); [apply sc_d_pos; exact Hd|exact Hq|].
      apply (nearest_even_scale (2 * P) Q); [exact HQ|apply sc_d_pos; exact Hd| |apply nearest_direct2; assumption].
      pose proof (sc_succ num den sx) as Hs. fold P in Hs. fold Q in Hs. lia. }
    lia.
Qed.

(* the conversion of the 18-or-more-digit truncation of x returns x *)
Lemma truncation_reads_back a k :
  0 < a -> a < inf_bits ->
  let c := fst (scale10 a k) / snd (scale10 a k) in
  10 ^ 17 <= c -> dec_in_range c k = true ->
  f64_of_decimal c k = Some a.
Proof.
  intros H0 Hi c Hc Hr.
  destruct (mag_facts a H0 Hi) as (Hm0 & Hm & He & Hnx & Ha).
  set (m := f_mant a) in *. set (e := f_exp2 a) in *.
  assert (Hc0 : c <> 0) by (change (10 ^ 17) with 100000000000000000 in Hc; lia).
  rewrite (f64_of_decimal_unfold c k Hc0 Hr). cbv zeta.
  set (num := dec_num c k). set (den := dec_den k).
  assert (Hn : 0 < num) by (apply dec_num_pos; lia). assert (Hd : 0 < den) by apply dec_den_pos.
  (* the common description of both fractions *)
  set (T2p := 2 ^ Z.to_N e). set (T2n := 2 ^ Z.to_N (- e)).
  set (T10p := 10 ^ Z.to_N k). set (T10n := 10 ^ Z.to_N (- k)).
  assert (P2p : 0 < T2p) by apply pow2_pos. assert (P2n : 0 < T2n) by apply pow2_pos.
  assert (P10p : 0 < T10p) by apply pow10_pos. assert (P10n : 0 < T10n) by apply pow10_pos.
  assert (Ec : c = (m * T2p * T10n) / (T2n * T10p)).
  { subst c. rewrite scale10_eq. cbn [fst snd]. rewrite f_num_eq, f_den_eq. reflexivity. }
  set (n := m * T2p * T10n) in *. set (d := T2n * T10p) in *.
  assert (Hdpos : 0 < d) by (subst d; apply N.mul_pos_pos; assumption).
  assert (EP : sc_n num (- e) = c * d).
  { unfold sc_n. subst num. rewrite dec_num_eq. fold T10p. fold T2n. subst d. lia. }
  assert (EQ : sc_d den (- e) = T10n * T2p).
  { unfold sc_d. subst den. rewrite dec_den_eq. fold T10n. replace (- - e)%Z with e by lia. fold T2p. reflexivity. }
  assert (En : n = m * (T10n * T2p)) by (subst n; lia).
  pose proof (N.mul_div_le n d ltac:(lia)) as Hle. rewrite <- Ec in Hle.
  pose proof (N.div_mod n d ltac:(lia)) as Hdm. rewrite <- Ec in Hdm.
  pose proof (N.mod_lt n d ltac:(lia)) as Hml.
  set (Q := T10n * T2p) in *.
  assert (HQpos : 0 < Q) by (subst Q; apply N.mul_pos_pos; assumption).
  assert (H8 : 8 * d < Q).
  { change (10 ^ 17) with 100000000000000000 in Hc. change (2 ^ 53) with 9007199254740992 in Hm.
    assert (Ha1 : 100000000000000000 * d <= c * d) by (apply N.mul_le_mono_r; exact Hc).
    assert (Ha2 : c * d <= m * Q) by lia.
    assert (Ha3 : m * Q < 9007199254740992 * Q) by (apply N.mul_lt_mono_pos_r; [exact HQpos|exact Hm]).
    destruct (N.lt_ge_cases (8 * d) Q) as [Hlt|Hge]; [exact Hlt|exfalso].
    set (cd := c * d) in *. set (mQ := m * Q) in *. lia. }
  pose proof (round_back num den m (- e)%Z a Hn Hd) as RB.
  rewrite EP, EQ in RB. fold Q in RB.
  assert (G1 : c * d <= m * Q) by lia.
  assert (G2 : 8 * (m * Q) < Q + 8 * (c * d)).
  { rewrite <- En. rewrite Hdm at 1. replace (d * c) with (c * d) by lia. set (cd := c * d) in *. lia. }
  assert (RB' := RB G1 G2 Hm0 Hm ltac:(lia)
                    ltac:(destruct Hnx as [Hx|Hx]; [left; lia|right; exact Hx])
                    ltac:(replace (1074 - - e)%Z with (1074 + e)%Z by lia; exact Ha)).
  cbv zeta in RB'. rewrite RB'.
  destruct (inf_bits <=? a) eqn:Ei; [lia|reflexivity].
Qed.

(* ---------- the digits of a number with at least 18 of them, in ryu's layouts ---------- *)

Lemma dec_digits_spec n :
  digits_val (dec_digits n) = n /\ Forall (fun d => (d < 10)%N) (dec_digits n) /\
  dec_digits n <> [] /\ (n <> 0 -> hd 0 (dec_digits n) <> 0).
Proof.
  unfold dec_digits. destruct (to_dec_spec n) as (ds & E & V & F & NE & HD & _). rewrite E.
  assert (Em : map (fun c : N => c - 48) (asc ds) = ds).
  { unfold asc. rewrite map_map. rewrite <- (map_id ds) at 2. apply map_ext. intros d. lia. }
  rewrite Em. repeat split; assumption.
Qed.

Lemma digits_val_bound ds : Forall (fun d => (d < 10)%N) ds -> digits_val ds < 10 ^ N.of_nat (length ds).
Proof.
  induction ds as [|d ds IH] using rev_ind; intros F.
  - cbn. lia.
  - apply Forall_app in F as (F1 & F2). inversion F2 as [|? ? Hd _]; subst.
    rewrite digits_val_snoc, app_length. cbn [length]. replace (N.of_nat (length ds + 1)) with (N.succ (N.of_nat (length ds))) by lia.
    rewrite N.pow_succ_r'. specialize (IH F1). lia.
Qed.

Lemma all_digits_of_Forall ds : Forall (fun d => (d < 10)%N) ds -> all_digits ds = true.
Proof.
  intros F. unfold all_digits. apply forallb_forall. intros x Hx. rewrite Forall_forall in F. specialize (F x Hx). lia.
Qed.

Lemma all_digits_app l1 l2 : all_digits (l1 ++ l2) = all_digits l1 && all_digits l2.
Proof. unfold all_digits. apply forallb_app. Qed.

Lemma all_digits_zeros n : all_digits (zeros n) = true.
Proof. induction n as [|n IH]; [reflexivity|]. cbn. exact IH. Qed.

Lemma digits_val_zeros n l : digits_val (zeros n ++ l) = digits_val l.
Proof. induction n as [|n IH]; [reflexivity|]. unfold digits_val in *. cbn [zeros repeat app fold_left]. exact IH. Qed.

Lemma zeros_length n : length (zeros n) = n.
Proof. apply repeat_length. Qed.

Lemma big_shape c k : 10 ^ 17 <= c ->
  shape_wf (ryu_shape c k) = true /\ shape_D (ryu_shape c k) = c /\ shape_E (ryu_shape c k) = k.
Proof.
  intros Hc. destruct (dec_digits_spec c) as (V & F & NE & HD).
  assert (Hc0 : c <> 0) by (change (10 ^ 17) with 100000000000000000 in Hc; lia). specialize (HD Hc0).
  pose proof (digits_val_bound _ F) as Hb. rewrite V in Hb.
  assert (Hlen : (18 <= length (dec_digits c))%nat).
  { destruct (Nat.lt_ge_cases (length (dec_digits c)) 18) as [Hlt|Hge]; [exfalso|exact Hge].
    assert (10 ^ N.of_nat (length (dec_digits c)) <= 10 ^ 17) by (apply N.pow_le_mono_r; lia). lia. }
  pose proof (all_digits_of_Forall _ F) as AD.
  unfold ryu_shape. set (ds := dec_digits c) in *.
  set (len := Z.of_nat (length ds)). set (kk := (len + k)%Z).
  destruct ((0 <=? k)%Z && (kk <=? 16)%Z) eqn:C1; [exfalso; subst kk len; lia|].
  destruct ((0 <? kk)%Z && (kk <=? 16)%Z) eqn:C2.
  - (* 12.34 *)
    set (n := Z.to_nat kk).
    assert (Hn : (1 <= n < length ds)%nat) by (subst n kk len; lia).
    pose proof (firstn_skipn n ds) as Hfs.
    assert (AD2 : all_digits (firstn n ds) && all_digits (skipn n ds) = true) by (rewrite <- all_digits_app, Hfs; exact AD).
    apply andb_prop in AD2 as (AD1 & AD2).
    pose proof (skipn_length n ds) as Hsl.
    unfold shape_wf, shape_D, shape_E. cbn [fs_ints fs_fracs fs_exp].
    rewrite AD1, AD2, Hfs, V. cbn [andb].
    split; [|split; [reflexivity|subst n kk len; lia]].
    destruct ds as [|d ds']; [congruence|]. cbn [hd] in HD.
    destruct n as [|n']; [lia|]. rewrite firstn_cons.
    destruct (d =? 0) eqn:Ed; [lia|]. cbn [negb orb andb].
    destruct (skipn (S n') (d :: ds')) eqn:Es; [cbn [length] in Hsl, Hn; lia|reflexivity].
  - destruct ((-5 <? kk)%Z && (kk <=? 0)%Z) eqn:C3.
    + (* 0.001234 *)
      unfold shape_wf, shape_D, shape_E. cbn [fs_ints fs_fracs fs_exp].
      rewrite all_digits_app, all_digits_zeros, AD. cbn [all_digits forallb andb N.ltb N.compare].
      split; [|split].
      * change (0 =? 0) with true. cbn [negb orb andb].
        destruct (zeros (Z.to_nat (- kk)) ++ ds) eqn:Ez; [|reflexivity].
        apply app_eq_nil in Ez as (_ & Ez). congruence.
      * change ([0] ++ zeros (Z.to_nat (- kk)) ++ ds) with (zeros (S (Z.to_nat (- kk))) ++ ds).
        rewrite digits_val_zeros. exact V.
      * rewrite app_length, zeros_length. subst kk len. lia.
    + destruct (len =? 1)%Z eqn:C4; [exfalso; subst len; lia|].
      (* 1.234e33 *)
      destruct ds as [|d ds'] eqn:Eds; [congruence|]. cbn [hd] in HD.
      change (firstn 1 (d :: ds')) with [d]. change (skipn 1 (d :: ds')) with ds'.
      unfold shape_wf, shape_D, shape_E. cbn [fs_ints fs_fracs fs_exp].
      change (d :: ds') with ([d] ++ ds') in AD. rewrite all_digits_app in AD. apply andb_prop in AD as (AD1 & AD2).
      rewrite AD1, AD2. cbn [andb].
      split; [|split].
      * destruct (d =? 0) eqn:Ed; [lia|]. cbn [negb orb andb]. destruct ds'; reflexivity.
      * exact V.
      * subst kk len. cbn [length]. lia.
Qed.

(* ---------- the first exponent tried leaves at least 18 digits ---------- *)

Definition top_of (L : Z) : Z := ((L + 1) * 30103 / 100000 + 2)%Z.

(* 10^(top_of L - 4) <= 2^(L - 1), cross-multiplied *)
Definition sweep_ok (L : Z) : bool :=
  let t := (top_of L - 4)%Z in
  10 ^ Z.to_N t * 2 ^ Z.to_N (1 - L) <=? 2 ^ Z.to_N (L - 1) * 10 ^ Z.to_N (- t).

Lemma sweep_all : forallb (fun i => sweep_ok (Z.of_nat i - 1080)%Z) (seq 0 2120) = true.
Proof. vm_compute. reflexivity. Qed.

Lemma sweep L : (-1080 <= L <= 1030)%Z -> sweep_ok L = true.
Proof.
  intros H. pose proof sweep_all as S. rewrite forallb_forall in S.
  specialize (S (Z.to_nat (L + 1080))). replace (Z.of_nat (Z.to_nat (L + 1080)) - 1080)%Z with L in S by lia.
  apply S. apply in_seq. lia.
Qed.

Lemma chain (fn fd A B2 W U Vp Vn Tp Tn K : N) :
  0 < Vp -> 0 < W -> A <= fn -> fd <= B2 -> A * W = B2 * U -> Vp * Tn = Vn * Tp * K -> Vp * W <= U * Vn ->
  fd * Tp * K <= fn * Tn.
Proof.
  intros HV HW HA HB I1 I2 S.
  apply (N.mul_le_mono_pos_r _ _ (Vp * W)); [apply N.mul_pos_pos; assumption|].
  transitivity (B2 * Tp * K * (Vp * W)).
  { apply N.mul_le_mono_r. apply N.mul_le_mono_r. apply N.mul_le_mono_r. exact HB. }
  transitivity (B2 * Tp * K * (U * Vn)).
  { apply N.mul_le_mono_l. exact S. }
  replace (B2 * Tp * K * (U * Vn)) with ((B2 * U) * (Vn * Tp * K)) by ring.
  rewrite <- I1, <- I2.
  replace (A * W * (Vp * Tn)) with (A * (W * (Vp * Tn))) by ring.
  replace (fn * Tn * (Vp * W)) with (fn * (W * (Vp * Tn))) by ring.
  apply N.mul_le_mono_r. exact HA.
Qed.

Lemma log_range a : 0 < a -> a < inf_bits ->
  (-1080 <= Z.of_N (N.log2 (f_num a)) - Z.of_N (N.log2 (f_den a)) <= 1030)%Z.
Proof.
  intros H0 Hi. destruct (mag_facts a H0 Hi) as (Hm0 & Hm & He & _ & _).
  rewrite f_num_eq, f_den_eq. rewrite N.log2_pow2 by lia. rewrite N.log2_mul_pow2 by lia.
  assert (N.log2 (f_mant a) < 53) by (apply N.log2_lt_pow2; [exact Hm0|exact Hm]).
  lia.
Qed.

Lemma start_big a : 0 < a -> a < inf_bits ->
  let k0 := (ryu_top a - 21)%Z in
  10 ^ 17 <= fst (scale10 a k0) / snd (scale10 a k0).
Proof.
  intros H0 Hi k0. rewrite scale10_eq. cbn [fst snd].
  pose proof (log_range a H0 Hi) as HL.
  destruct (mag_facts a H0 Hi) as (Hm0 & Hm & He & _ & _).
  assert (Hfn : 0 < f_num a) by (rewrite f_num_eq; apply N.mul_pos_pos; [exact Hm0|apply pow2_pos]).
  assert (Hfd : 0 < f_den a) by (rewrite f_den_eq; apply pow2_pos).
  set (fn := f_num a) in *. set (fd := f_den a) in *.
  destruct (N.log2_spec fn Hfn) as [La Ua]. destruct (N.log2_spec fd Hfd) as [Lb Ub].
  set (la := N.log2 fn) in *. set (lb := N.log2 fd) in *.
  set (L := (Z.of_N la - Z.of_N lb)%Z) in *.
  assert (Ek : k0 = (top_of L - 21)%Z) by reflexivity.
  pose proof (sweep L HL) as S. unfold sweep_ok in S. cbv zeta in S. apply N.leb_le in S.
  set (t := (top_of L - 4)%Z) in *.
  assert (P10 : forall n, 0 < 10 ^ n) by (intros n; apply pow10_pos).
  apply N.div_le_lower_bound; [pose proof (P10 (Z.to_N k0)); lia|].
  replace (fd * 10 ^ Z.to_N k0 * 10 ^ 17) with (fd * 10 ^ Z.to_N k0 * 10 ^ 17) by reflexivity.
  apply (chain fn fd (2 ^ la) (2 ^ N.succ lb) (2 ^ Z.to_N (1 - L)) (2 ^ Z.to_N (L - 1))
               (10 ^ Z.to_N t) (10 ^ Z.to_N (- t)) (10 ^ Z.to_N k0) (10 ^ Z.to_N (- k0)) (10 ^ 17)).
  - apply P10.
  - apply pow2_pos.
  - exact La.
  - lia.
  - rewrite <- !N.pow_add_r. f_equal. lia.
  - rewrite <- !N.pow_add_r. f_equal. lia.
  - exact S.
Qed.

Lemma start_in_range a c : 0 < a -> a < inf_bits -> dec_in_range c (ryu_top a - 21) = true.
Proof.
  intros H0 Hi. pose proof (log_range a H0 Hi) as HL. unfold dec_in_range, ryu_top.
  set (L := (Z.of_N (N.log2 (f_num a)) - Z.of_N (N.log2 (f_den a)))%Z) in *.
  assert (0 <= Z.of_N (N.log2 c) / 3)%Z by (apply Z.div_pos; lia).
  apply andb_true_intro. split; apply negb_true_iff; lia.
Qed.

(* ---------- the search never comes back empty ---------- *)

Lemma ascend_some steps a k x : ryu_ascend steps a k (Some x) <> None.
Proof.
  revert k x. induction steps as [|s IH]; intros k x; cbn [ryu_ascend]; [discriminate|].
  destruct (try_k a k) as [c|]; [apply IH|discriminate].
Qed.

Lemma first_try a : 0 < a -> a < inf_bits -> try_k a (ryu_top a - 21) <> None.
Proof.
  intros H0 Hi. set (k0 := (ryu_top a - 21)%Z).
  pose proof (start_big a H0 Hi) as Hc. cbv zeta in Hc. fold k0 in Hc.
  unfold try_k. destruct (scale10 a k0) as [n d] eqn:Es. cbn [fst snd] in Hc.
  set (c := n / d) in *.
  destruct (big_shape c k0 Hc) as (Hwf & HD & HE).
  assert (Hr : shape_reads a (ryu_shape c k0) = true).
  { unfold shape_reads. rewrite Hwf, HD, HE. cbn [andb].
    pose proof (truncation_reads_back a k0 H0 Hi) as T. cbv zeta in T. rewrite Es in T. cbn [fst snd] in T. fold c in T.
    rewrite (T Hc (start_in_range a c H0 Hi)). apply N.eqb_refl. }
  rewrite Hr. assert (H1 : (1 <=? c) = true) by (change (10 ^ 17) with 100000000000000000 in Hc; lia).
  rewrite H1. cbn [andb].
  destruct (shape_reads a (ryu_shape (c + 1) k0)); [|discriminate].
  destruct (2 * n <? (2 * c + 1) * d); [discriminate|].
  destruct (2 * n =? (2 * c + 1) * d); [destruct (N.even c); discriminate|discriminate].
Qed.

Lemma ascend_S s a k best :
  ryu_ascend (S s) a k best =
    match try_k a k with Some c => ryu_ascend s a (k + 1)%Z (Some (c, k)) | None => best end.
Proof. reflexivity. Qed.

Theorem ryu_d2d_total a : 0 < a -> a < inf_bits -> ryu_d2d a <> None.
Proof.
  intros H0 Hi. unfold ryu_d2d. change ryu_steps with (S 25). rewrite ascend_S.
  destruct (try_k a (ryu_top a - 21)) as [c|] eqn:E; [apply ascend_some|].
  exfalso. exact (first_try a H0 Hi E).
Qed.

(* the hypothesis of the read-back theorems holds for every finite binary64 *)
Theorem ryu_ok_total b : f_finite b = true -> ryu_ok b = true.
Proof.
  intros Hf. unfold ryu_ok. rewrite Hf. cbn [andb]. unfold ryu_abs.
  destruct (f_abs b =? 0) eqn:E0; [reflexivity|].
  unfold f_finite in Hf. apply andb_prop in Hf as (_ & Hi).
  pose proof (ryu_d2d_total (f_abs b) ltac:(lia) ltac:(lia)) as T.
  destruct (ryu_d2d (f_abs b)) as [[c k]|]; [reflexivity|congruence].
Qed.

(* ---------- so: every finite binary64 is read back from serde_json's text ---------- *)

Theorem json_f64_reads_all : forall b, f_finite b = true -> forall f depth tail, val_end tail ->
  parse_value (S f) depth (json_f64 b ++ tail) = ([EF64 b], JOk tail).
Proof. intros b H. exact (json_f64_reads b (ryu_ok_total b H)). Qed.

Theorem json_f64_head_all : forall b, f_finite b = true ->
  exists c r, json_f64 b = c :: r /\ is_ws c = false /\ (c =? 93)%N = false /\ (c =? 125)%N = false /\ (c =? 44)%N = false.
Proof. intros b H. exact (json_f64_head b (ryu_ok_total b H)). Qed.

(* non-vacuity: the largest and the smallest finite values, both signs of zero *)
Example finite_examples :
  forallb f_finite [9218868437227405311; 1; 0; sign_bit; (sign_bit + 9218868437227405311)]%N = true /\
  f_finite inf_bits = false /\ f_finite (inf_bits + 1) = false.
Proof. vm_compute. repeat split. Qed.
