(* JsonRoundTripProofs.v — the round-trip clause of C06 for the other direction
   of the pair, on the codec models alone: JSON -> MessagePack -> JSON through xt
   gives the bytes JSON -> JSON gives.

   The values JSON carries are written by the MessagePack writer in their
   shortest form; the MessagePack reader reads that encoding back to events
   that differ from the JSON reader's only in the integer width they report,
   which the JSON writer never looks at; so the JSON writer, driven by the
   MessagePack reader's events, writes each value exactly as it does when it is
   driven by the JSON reader's events.  Floats travel as their 64 bits, so the
   statement needs no premise on how they are spelled. *)
From XtModel Require Import Base Utf8 MsgpackModel MsgpackCodecProofs JsonModel JsonProofs JsonWriteModel JsonWriteProofs JsonMsgpackProofs.
Require Import ZifyBool ZifyNat ZifyN.

Fixpoint to_mval (j : jval) : mval :=
  match j with
  | JNull => VNil
  | JBool b => VBool b
  | JUInt n => VUInt n
  | JNegInt z => VNeg z
  | JFloat b => VF64 b
  | JStr s => VStr s
  | JArr js => VArr (map to_mval js)
  | JObj kjs => VMap (map (fun kj : bytes * jval => (VStr (fst kj), to_mval (snd kj))) kjs)
  end.

Lemma carries_to_mval : forall j, carries (to_mval j) j.
Proof.
  induction j as [ |b|n|z|b|s|js IH|kjs IH] using jval_ind2; cbn [to_mval]; try constructor.
  - induction IH as [|j js Hj _ IHjs]; cbn [map]; constructor; assumption.
  - induction IH as [|[k j] kjs Hj _ IHk]; cbn [map]; constructor; [|assumption].
    cbn [fst snd] in *. split; [reflexivity|exact Hj].
Qed.

(* the events the MessagePack reader produces for a value's encoding start with
   an event that opens or is the value, never with an end marker *)
Lemma evs_head j : exists e t, evs (to_mval j) = e :: t /\ e <> ESeqEnd /\ e <> EMapEnd.
Proof. destruct j; cbn [to_mval evs]; eexists; eexists; (split; [reflexivity|split; discriminate]). Qed.

Lemma evs_len_pos j : 1 <= length (evs (to_mval j)).
Proof. destruct (evs_head j) as (e & t & -> & _). cbn. lia. Qed.

Definition P_tree (j : jval) : Prop :=
  forall fuel rest, length (evs (to_mval j)) <= fuel -> tree_of fuel (evs (to_mval j) ++ rest) = Some (j, rest).

Lemma elems_back : forall js, Forall P_tree js ->
  forall fuel rest, length (flat_map evs (map to_mval js)) + 1 <= fuel ->
    elems_of fuel (flat_map evs (map to_mval js) ++ ESeqEnd :: rest) = Some (js, rest).
Proof.
  induction js as [|j js IH]; intros HP fuel rest Hf.
  - destruct fuel as [|f]; [cbn in Hf; lia|]. reflexivity.
  - inversion HP as [|? ? Pj Pjs]; subst. cbn [map flat_map] in *. rewrite app_length in Hf.
    pose proof (evs_len_pos j) as Hpos.
    destruct fuel as [|f]; [lia|]. rewrite <- app_assoc.
    destruct (evs_head j) as (e & t & E & N1 & N2).
    assert (Hstep : elems_of (S f) (evs (to_mval j) ++ flat_map evs (map to_mval js) ++ ESeqEnd :: rest) =
                    match tree_of f (evs (to_mval j) ++ flat_map evs (map to_mval js) ++ ESeqEnd :: rest) with
                    | Some (v, r) => match elems_of f r with Some (vs, r') => Some (v :: vs, r') | None => None end
                    | None => None
                    end).
    { rewrite E. cbn [app elems_of]. destruct e; try reflexivity; congruence. }
    rewrite Hstep, (Pj f _ ltac:(lia)), (IH Pjs f rest ltac:(lia)). reflexivity.
Qed.

Lemma members_back : forall kjs, Forall (fun kj : bytes * jval => P_tree (snd kj)) kjs ->
  forall fuel rest,
    length (flat_map (fun kv : mval * mval => let (k, x) := kv in evs k ++ evs x)
              (map (fun kj : bytes * jval => (VStr (fst kj), to_mval (snd kj))) kjs)) + 1 <= fuel ->
    members_of fuel (flat_map (fun kv : mval * mval => let (k, x) := kv in evs k ++ evs x)
                       (map (fun kj : bytes * jval => (VStr (fst kj), to_mval (snd kj))) kjs) ++ EMapEnd :: rest) = Some (kjs, rest).
Proof.
  induction kjs as [|[k j] kjs IH]; intros HP fuel rest Hf.
  - destruct fuel as [|f]; [cbn in Hf; lia|]. reflexivity.
  - inversion HP as [|? ? Pj Pjs]; subst. cbn [map flat_map fst snd evs] in *. rewrite !app_length in Hf. cbn [length] in Hf.
    pose proof (evs_len_pos j) as Hpos.
    destruct fuel as [|f]; [lia|]. rewrite <- !app_assoc. cbn [app members_of].
    rewrite (Pj f _ ltac:(lia)), (IH Pjs f rest ltac:(lia)). reflexivity.
Qed.

(* the JSON writer's view of the MessagePack reader's events is the original value *)
Theorem tree_of_msgpack_events : forall j, P_tree j.
Proof.
  induction j as [ |b|n|z|b|s|js IH|kjs IH] using jval_ind2; unfold P_tree; intros fuel rest Hf; cbn [to_mval evs] in *;
    try (destruct fuel as [|f]; [cbn in Hf; lia|]; reflexivity).
  - destruct fuel as [|f]; [cbn in Hf; lia|]. cbn [app tree_of].
    cbn [length] in Hf. rewrite app_length in Hf. cbn [length] in Hf.
    rewrite <- app_assoc. cbn [app]. rewrite (elems_back js IH f rest ltac:(lia)). reflexivity.
  - destruct fuel as [|f]; [cbn in Hf; lia|]. cbn [app tree_of].
    cbn [length] in Hf. rewrite app_length in Hf. cbn [length] in Hf.
    rewrite <- app_assoc. cbn [app]. rewrite (members_back kjs IH f rest ltac:(lia)). reflexivity.
Qed.

(* ---------- the same for the JSON reader's own events ---------- *)

Lemma jevs_head j : exists e t, jevs j = e :: t /\ e <> ESeqEnd /\ e <> EMapEnd.
Proof. destruct j; cbn [jevs]; eexists; eexists; (split; [reflexivity|split; discriminate]). Qed.

Lemma jevs_len_pos j : 1 <= length (jevs j).
Proof. destruct (jevs_head j) as (e & t & -> & _). cbn. lia. Qed.

Definition P_jtree (j : jval) : Prop :=
  forall fuel rest, length (jevs j) <= fuel -> tree_of fuel (jevs j ++ rest) = Some (j, rest).

Lemma jelems_back : forall js, Forall P_jtree js ->
  forall fuel rest, length (flat_map jevs js) + 1 <= fuel ->
    elems_of fuel (flat_map jevs js ++ ESeqEnd :: rest) = Some (js, rest).
Proof.
  induction js as [|j js IH]; intros HP fuel rest Hf.
  - destruct fuel as [|f]; [cbn in Hf; lia|]. reflexivity.
  - inversion HP as [|? ? Pj Pjs]; subst. cbn [flat_map] in *. rewrite app_length in Hf.
    pose proof (jevs_len_pos j) as Hpos.
    destruct fuel as [|f]; [lia|]. rewrite <- app_assoc.
    destruct (jevs_head j) as (e & t & E & N1 & N2).
    assert (Hstep : elems_of (S f) (jevs j ++ flat_map jevs js ++ ESeqEnd :: rest) =
                    match tree_of f (jevs j ++ flat_map jevs js ++ ESeqEnd :: rest) with
                    | Some (v, r) => match elems_of f r with Some (vs, r') => Some (v :: vs, r') | None => None end
                    | None => None
                    end).
    { rewrite E. cbn [app elems_of]. destruct e; try reflexivity; congruence. }
    rewrite Hstep, (Pj f _ ltac:(lia)), (IH Pjs f rest ltac:(lia)). reflexivity.
Qed.

Lemma jmembers_back : forall kjs, Forall (fun kj : bytes * jval => P_jtree (snd kj)) kjs ->
  forall fuel rest,
    length (flat_map (fun kv : bytes * jval => let (k, x) := kv in EStr k :: jevs x) kjs) + 1 <= fuel ->
    members_of fuel (flat_map (fun kv : bytes * jval => let (k, x) := kv in EStr k :: jevs x) kjs ++ EMapEnd :: rest) = Some (kjs, rest).
Proof.
  induction kjs as [|[k j] kjs IH]; intros HP fuel rest Hf.
  - destruct fuel as [|f]; [cbn in Hf; lia|]. reflexivity.
  - inversion HP as [|? ? Pj Pjs]; subst. cbn [flat_map snd] in *. cbn [length app] in Hf. rewrite app_length in Hf.
    pose proof (jevs_len_pos j) as Hpos.
    destruct fuel as [|f]; [lia|]. cbn [app]. rewrite <- app_assoc. cbn [members_of].
    rewrite (Pj f _ ltac:(lia)), (IH Pjs f rest ltac:(lia)). reflexivity.
Qed.

(* the JSON writer's view of the JSON reader's events is the original value *)
Theorem tree_of_json_events : forall j, P_jtree j.
Proof.
  induction j as [ |b|n|z|b|s|js IH|kjs IH] using jval_ind2; unfold P_jtree; intros fuel rest Hf; cbn [jevs] in *;
    try (destruct fuel as [|f]; [cbn in Hf; lia|]; reflexivity).
  - destruct fuel as [|f]; [cbn in Hf; lia|]. cbn [app tree_of].
    cbn [length] in Hf. rewrite app_length in Hf. cbn [length] in Hf.
    rewrite <- app_assoc. cbn [app]. rewrite (jelems_back js IH f rest ltac:(lia)). reflexivity.
  - destruct fuel as [|f]; [cbn in Hf; lia|]. cbn [app tree_of].
    cbn [length] in Hf. rewrite app_length in Hf. cbn [length] in Hf.
    rewrite <- app_assoc. cbn [app]. rewrite (jmembers_back kjs IH f rest ltac:(lia)). reflexivity.
Qed.

Lemma json_of_docs_jevs fmt js : json_of_docs fmt (map jevs js) = Some (jwrite_docs fmt js).
Proof.
  unfold json_of_docs, jwrite_docs. rewrite map_map.
  assert (E : map (fun j => tree_of (S (length (jevs j))) (jevs j)) js = map (fun j => Some (j, [])) js).
  { apply map_ext. intros j. pose proof (tree_of_json_events j (S (length (jevs j))) [] ltac:(lia)) as H.
    now rewrite app_nil_r in H. }
  rewrite E. clear E.
  assert (F : forallb (fun t : option (jval * list ev) => match t with Some (_, []) => true | _ => false end)
                (map (fun j => Some (j, [])) js) = true).
  { induction js as [|j js IH]; [reflexivity|]. cbn [map forallb]. exact IH. }
  rewrite F. f_equal. induction js as [|j js IH]; [reflexivity|]. cbn [map flat_map]. now rewrite IH.
Qed.

(* xt's JSON output is a fixed point of JSON -> JSON (floats under the read-back
   premise): reading it back with either loop and writing what was read gives
   the same bytes. *)
Theorem json_output_is_a_fixed_point :
  forall (fmt_f64 : N -> bytes) (float_ok : N -> bool),
    (forall b, float_ok b = true -> forall f depth tail, val_end tail ->
       parse_value (S f) depth (fmt_f64 b ++ tail) = ([EF64 b], JOk tail)) ->
    (forall b, float_ok b = true ->
       exists c r, fmt_f64 b = c :: r /\ is_ws c = false /\ (c =? 93)%N = false /\ (c =? 125)%N = false /\ (c =? 44)%N = false) ->
    forall js : list jval, Forall (writable float_ok) js ->
      json_of_docs fmt_f64 (fst (json_reader (jwrite_docs fmt_f64 js))) = Some (jwrite_docs fmt_f64 js) /\
      json_of_docs fmt_f64 (fst (json_slice (jwrite_docs fmt_f64 js))) = Some (jwrite_docs fmt_f64 js).
Proof.
  intros fmt ok H1 H2 js HW.
  rewrite (json_reader_reads_docs fmt ok H1 H2 js HW), (json_slice_reads_docs fmt ok H1 H2 js HW).
  cbn [fst]. split; apply json_of_docs_jevs.
Qed.

Section RoundTrip.
  Variable fmt : N -> bytes.

  (* values the MessagePack writer can encode: see MsgpackCodecProofs.encodable *)
  Definition jencodable (j : jval) : Prop := encodable utf8_valid (to_mval j).

  Lemma json_of_docs_events js :
    json_of_docs fmt (map (fun j => evs (to_mval j)) js) = Some (jwrite_docs fmt js).
  Proof.
    unfold json_of_docs, jwrite_docs. rewrite map_map.
    assert (E : map (fun j => tree_of (S (length (evs (to_mval j)))) (evs (to_mval j))) js = map (fun j => Some (j, [])) js).
    { apply map_ext. intros j. pose proof (tree_of_msgpack_events j (S (length (evs (to_mval j)))) [] ltac:(lia)) as H.
      now rewrite app_nil_r in H. }
    rewrite E. clear E.
    assert (F : forallb (fun t : option (jval * list ev) => match t with Some (_, []) => true | _ => false end)
                  (map (fun j => Some (j, [])) js) = true).
    { induction js as [|j js IH]; [reflexivity|]. cbn [map forallb]. exact IH. }
    rewrite F. f_equal. induction js as [|j js IH]; [reflexivity|]. cbn [map flat_map]. now rewrite IH.
  Qed.

  (* JSON -> MessagePack -> JSON.  For every stream of values JSON carries: the
     MessagePack xt writes for them (from the JSON reader's events), read back
     by either MessagePack loop and handed to the JSON writer, gives the bytes
     the JSON writer produces for the values directly - what JSON -> JSON
     writes. *)
  Theorem json_msgpack_json js :
    Forall jencodable js ->
    let mp := flat_map enc_evs (map jevs js) in          (* JSON -> MessagePack *)
    mp = flat_map enc_val (map to_mval js) /\
    mm_ok (transcode_reader utf8_valid mp) = true /\ mm_ok (transcode_slice utf8_valid mp) = true /\
    json_of_docs fmt (fst (transcode_reader utf8_valid mp)) = Some (jwrite_docs fmt js) /\
    json_of_docs fmt (fst (transcode_slice utf8_valid mp)) = Some (jwrite_docs fmt js).
  Proof.
    intros Henc. cbn zeta.
    assert (E : flat_map enc_evs (map jevs js) = flat_map enc_val (map to_mval js)).
    { induction js as [|j js IH]; [reflexivity|]. inversion Henc; subst. cbn [map flat_map].
      rewrite (same_encoding (to_mval j) j (carries_to_mval j)). now rewrite IH. }
    rewrite E. split; [reflexivity|].
    assert (Hall : Forall (encodable utf8_valid) (map to_mval js)) by (rewrite Forall_map; exact Henc).
    destruct (reader_identity utf8_valid (map to_mval js) Hall) as (Rd & Rok & _).
    destruct (slice_identity utf8_valid (map to_mval js) Hall) as (Sd & Sok & _).
    cbn zeta in *. rewrite Rd, Sd, map_map. repeat split; try assumption; apply json_of_docs_events.
  Qed.

  (* JSON -> MessagePack keeps the value: what either MessagePack loop reads from
     xt's output is the event list of the same value - null, booleans, integers
     with their sign and magnitude, floats with the identical 64 bits, strings
     byte for byte, arrays and maps entry by entry in the same order. *)
  Theorem json_to_msgpack_same_value js :
    Forall jencodable js ->
    let mp := flat_map enc_evs (map jevs js) in
    fst (transcode_reader utf8_valid mp) = map evs (map to_mval js) /\
    fst (transcode_slice utf8_valid mp) = map evs (map to_mval js) /\
    mm_ok (transcode_reader utf8_valid mp) = true /\ mm_ok (transcode_slice utf8_valid mp) = true.
  Proof.
    intros Henc. cbn zeta.
    assert (E : flat_map enc_evs (map jevs js) = flat_map enc_val (map to_mval js)).
    { induction js as [|j js IH]; [reflexivity|]. inversion Henc; subst. cbn [map flat_map].
      rewrite (same_encoding (to_mval j) j (carries_to_mval j)). now rewrite IH. }
    rewrite E.
    assert (Hall : Forall (encodable utf8_valid) (map to_mval js)) by (rewrite Forall_map; exact Henc).
    destruct (reader_identity utf8_valid (map to_mval js) Hall) as (Rd & Rok & _).
    destruct (slice_identity utf8_valid (map to_mval js) Hall) as (Sd & Sok & _).
    cbn zeta in *. auto.
  Qed.
End RoundTrip.

(* non-vacuity *)
Example json_msgpack_json_example :
  let js := [JObj [([97], JArr [JUInt 300; JNegInt (-5); JNull; JFloat 4609434218613702656; JStr [233 - 38; 169]])]]%N%Z in
  json_of_docs (fun _ => [49; 46; 53]%N) (fst (transcode_reader utf8_valid (flat_map enc_evs (map jevs js)))) =
  Some (jwrite_docs (fun _ => [49; 46; 53]%N) js).
Proof. vm_compute. reflexivity. Qed.
