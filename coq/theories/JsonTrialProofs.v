(* JsonTrialProofs.v — the JSON detection trial (JsonTrialModel.v: serde_json's
   ignore_value) accepts whatever the real parse accepts, and stops at the same
   place: so the text xt's JSON output writes for any value below the recursion
   limit — floats included — is accepted by the trial, and the premise of
   C10_own_json is discharged. *)
From XtModel Require Import Base Utf8 Utf8Proofs MsgpackModel JsonModel JsonProofs JsonUtf8Proofs JsonWriteModel JsonWriteProofs
  JsonFloatModel JsonFloatProofs JsonFloatTotalProofs JsonTrialModel.
Require Import ZifyBool ZifyNat ZifyN.

(* ---------- numbers ---------- *)

Lemma float_ev_rest pos ds E r evs rest : float_ev pos ds E r = (evs, JOk rest) -> rest = r.
Proof. unfold float_ev. destruct (f64_of_decimal (digits_val ds) E); intros H; inversion H; reflexivity. Qed.

Lemma int_ev_rest pos ds r evs rest : int_ev pos ds r = (evs, JOk rest) -> rest = r.
Proof.
  unfold int_ev. destruct pos.
  - destruct (digits_val ds <=? u64_max)%N; intros H; [inversion H; reflexivity|exact (float_ev_rest _ _ _ _ _ _ H)].
  - destruct (digits_val ds =? 0)%N; [intros H; inversion H; reflexivity|].
    destruct (digits_val ds <=? sign_bit)%N; intros H; [inversion H; reflexivity|exact (float_ev_rest _ _ _ _ _ _ H)].
Qed.

Lemma parse_exp_ignore pos ints fracs inp evs rest :
  parse_exp pos ints fracs inp = (evs, JOk rest) -> ignore_exp inp = JOk rest.
Proof.
  unfold parse_exp, ignore_exp, exp_digits. destruct (snd (exp_sign inp)) as [|b r] eqn:E; [discriminate|].
  destruct (is_digit b); [|discriminate]. destruct (take_digits (b :: r)) as [es rest'] eqn:Et. cbn [snd].
  intros H. apply float_ev_rest in H. now subst.
Qed.

Lemma frac_part_ignore pos ints r evs rest :
  frac_part pos ints r = (evs, JOk rest) -> ignore_frac r = JOk rest.
Proof.
  unfold frac_part, ignore_frac. destruct (take_digits r) as [fs r2]. destruct fs as [|f0 fs']; [discriminate|].
  destruct r2 as [|c r3].
  - intros H. apply float_ev_rest in H. now subst.
  - destruct (is_e c); [apply parse_exp_ignore|]. intros H. apply float_ev_rest in H. now subst.
Qed.

Lemma after_int_ignore pos ints inp evs rest :
  after_int pos ints inp = (evs, JOk rest) -> ignore_after_int inp = JOk rest.
Proof.
  unfold after_int, ignore_after_int. destruct inp as [|b r].
  - intros H. apply int_ev_rest in H. now subst.
  - destruct (b =? 46)%N; [apply frac_part_ignore|]. destruct (is_e b); [apply parse_exp_ignore|].
    intros H. apply int_ev_rest in H. now subst.
Qed.

Lemma parse_number_ignore pos inp evs rest :
  parse_number pos inp = (evs, JOk rest) -> ignore_number inp = JOk rest.
Proof.
  unfold parse_number, ignore_number. destruct inp as [|b r]; [discriminate|].
  destruct (b =? 48)%N.
  - destruct r as [|d r']; [apply after_int_ignore|]. destruct (is_digit d); [discriminate|apply after_int_ignore].
  - destruct (is_digit b); [|discriminate]. destruct (take_digits (b :: r)) as [ds rest'] eqn:Et. cbn [snd].
    apply after_int_ignore.
Qed.

(* ---------- strings ---------- *)

Lemma hex4_rest inp n r : hex4 inp = HexOk n r -> exists a b c d, inp = a :: b :: c :: d :: r.
Proof.
  unfold hex4. destruct inp as [|a [|b [|c [|d r']]]]; try discriminate.
  destruct (hexval a), (hexval b), (hexval c), (hexval d); try discriminate.
  intros H. inversion H; subst. eauto.
Qed.

Lemma parse_str_ignore : forall f inp acc s rest g,
  parse_str f inp acc = (Some s, JOk rest) -> length inp < g -> ignore_str g inp = JOk rest.
Proof.
  induction f as [|f IH]; intros inp acc s rest g H Hg; [discriminate|].
  destruct g as [|g]; [lia|]. cbn [parse_str] in H. cbn [ignore_str].
  destruct inp as [|b r]; [discriminate|]. cbn [length] in Hg.
  destruct (b =? 34)%N.
  - destruct (utf8_valid (rev acc)); inversion H; reflexivity.
  - destruct (b =? 92)%N.
    + destruct r as [|c r1]; [discriminate|]. cbn [length] in Hg.
      destruct (simple_escape c) as [x|].
      * apply (IH _ _ _ _ g H). lia.
      * destruct (c =? 117)%N; [|discriminate].
        destruct (hex4 r1) as [n r2| |] eqn:Eh; try discriminate.
        destruct (hex4_rest _ _ _ Eh) as (h1 & h2 & h3 & h4 & ->). cbn [length] in Hg.
        destruct (is_trail n); [discriminate|].
        destruct (negb (is_lead n)).
        -- apply (IH _ _ _ _ g H). lia.
        -- destruct r2 as [|c1 r3]; [discriminate|]. destruct (negb (c1 =? 92)%N) eqn:E1; [discriminate|].
           destruct r3 as [|c2 r4]; [discriminate|]. destruct (negb (c2 =? 117)%N) eqn:E2; [discriminate|].
           destruct (hex4 r4) as [n2 r5| |] eqn:Eh2; try discriminate.
           destruct (is_trail n2); [|discriminate].
           destruct (hex4_rest _ _ _ Eh2) as (k1 & k2 & k3 & k4 & ->). cbn [length] in Hg.
           (* the scanner takes the second escape as one more step *)
           destruct g as [|g']; [lia|]. cbn [ignore_str].
           assert (c1 = 92%N) by lia. assert (c2 = 117%N) by lia. subst c1 c2.
           change (92 =? 34)%N with false. change (92 =? 92)%N with true. cbv iota.
           change (simple_escape 117) with (@None N). change (117 =? 117)%N with true. cbv iota.
           rewrite Eh2. apply (IH _ _ _ _ g' H). cbn [length]. lia.
    + destruct (b <? 32)%N; [discriminate|]. apply (IH _ _ _ _ g H). lia.
Qed.

Lemma parse_string_ignore inp s rest : parse_string inp = (Some s, JOk rest) -> ignore_string inp = JOk rest.
Proof. unfold parse_string, ignore_string. intros H. apply (parse_str_ignore _ _ _ _ _ _ H). lia. Qed.

(* ---------- values ---------- *)

Lemma lit_rest r e evs rest : lit r e = (evs, JOk rest) -> r = JOk rest.
Proof. unfold lit. destruct r; intros H; inversion H; reflexivity. Qed.

Lemma parse_ignore : forall f,
  (forall depth inp evs rest, parse_value f depth inp = (evs, JOk rest) -> ignore_val f inp = JOk rest) /\
  (forall depth inp first evs n rest, parse_elems f depth inp first = (evs, n, JOk rest) -> ignore_elems f inp first = JOk rest) /\
  (forall depth inp first evs n rest, parse_members f depth inp first = (evs, n, JOk rest) -> ignore_members f inp first = JOk rest).
Proof.
  induction f as [|f (IHv & IHe & IHm)]; [repeat split; intros; discriminate|].
  split; [|split].
  - intros depth inp evs rest H. cbn [parse_value] in H. cbn [ignore_val].
    destruct (skip_ws inp) as [|b r]; [discriminate|].
    destruct (b =? 110)%N; [exact (lit_rest _ _ _ _ H)|].
    destruct (b =? 116)%N; [exact (lit_rest _ _ _ _ H)|].
    destruct (b =? 102)%N; [exact (lit_rest _ _ _ _ H)|].
    destruct (b =? 45)%N; [exact (parse_number_ignore _ _ _ _ H)|].
    destruct (is_digit b); [exact (parse_number_ignore _ _ _ _ H)|].
    destruct (b =? 34)%N.
    { destruct (parse_string r) as [[s|] [rest'|e]] eqn:Es; try discriminate.
      inversion H; subst. exact (parse_string_ignore _ _ _ Es). }
    destruct (b =? 91)%N.
    { destruct (depth - 1 =? 0); [discriminate|].
      destruct (parse_elems f (depth - 1) r true) as [[evs' n] [rest'|e]] eqn:Ee; [|discriminate].
      inversion H; subst. exact (IHe _ _ _ _ _ _ Ee). }
    destruct (b =? 123)%N; [|discriminate].
    destruct (depth - 1 =? 0); [discriminate|].
    destruct (parse_members f (depth - 1) r true) as [[evs' n] [rest'|e]] eqn:Em; [|discriminate].
    inversion H; subst. exact (IHm _ _ _ _ _ _ Em).
  - intros depth inp first evs n rest H. cbn [parse_elems] in H. cbn [ignore_elems].
    assert (Hel : forall at_, (match parse_value f depth at_ with
                               | (evs0, JOk rest0) => let '(evs', n0, res) := parse_elems f depth rest0 false in (evs0 ++ evs', (n0 + 1)%N, res)
                               | (_, JErr e) => ([], 0%N, JErr e)
                               end) = (evs, n, JOk rest) ->
                              ok_rest (ignore_val f at_) (fun rest0 => ignore_elems f rest0 false) = JOk rest).
    { intros at_ Ha. destruct (parse_value f depth at_) as [evs0 [rest0|e]] eqn:Ev; [|discriminate].
      destruct (parse_elems f depth rest0 false) as [[evs' n0] res] eqn:Ee. inversion Ha; subst.
      rewrite (IHv _ _ _ _ Ev). cbn [ok_rest]. exact (IHe _ _ _ _ _ _ Ee). }
    destruct (skip_ws inp) as [|b r]; [discriminate|].
    destruct (b =? 93)%N; [inversion H; reflexivity|].
    destruct first; [exact (Hel _ H)|].
    destruct (b =? 44)%N; [|discriminate].
    destruct (skip_ws r) as [|c r']; [discriminate|].
    destruct (c =? 93)%N; [discriminate|exact (Hel _ H)].
  - intros depth inp first evs n rest H. cbn [parse_members] in H. cbn [ignore_members].
    assert (Hmem : forall at_, (match parse_string at_ with
                                | (Some k, JOk r1) =>
                                    match skip_ws r1 with
                                    | [] => ([], 0%N, JErr JEof)
                                    | c :: r2 =>
                                        if (c =? 58)%N then
                                          match parse_value f depth r2 with
                                          | (evs0, JOk rest0) => let '(evs', n0, res) := parse_members f depth rest0 false in (EStr k :: evs0 ++ evs', (n0 + 1)%N, res)
                                          | (_, JErr e) => ([], 0%N, JErr e)
                                          end
                                        else ([], 0%N, JErr JSyntax)
                                    end
                                | (_, JErr e) => ([], 0%N, JErr e)
                                | (None, JOk _) => ([], 0%N, JErr JSyntax)
                                end) = (evs, n, JOk rest) ->
                               ok_rest (ignore_string at_) (fun r1 =>
                                 match skip_ws r1 with
                                 | [] => JErr JEof
                                 | c :: r2 => if (c =? 58)%N then ok_rest (ignore_val f r2) (fun rest0 => ignore_members f rest0 false) else JErr JSyntax
                                 end) = JOk rest).
    { intros at_ Ha. destruct (parse_string at_) as [[k|] [r1|e]] eqn:Es; try discriminate.
      rewrite (parse_string_ignore _ _ _ Es). cbn [ok_rest].
      destruct (skip_ws r1) as [|c r2]; [discriminate|]. destruct (c =? 58)%N; [|discriminate].
      destruct (parse_value f depth r2) as [evs0 [rest0|e]] eqn:Ev; [|discriminate].
      destruct (parse_members f depth rest0 false) as [[evs' n0] res] eqn:Em. inversion Ha; subst.
      rewrite (IHv _ _ _ _ Ev). cbn [ok_rest]. exact (IHm _ _ _ _ _ _ Em). }
    destruct (skip_ws inp) as [|b r]; [discriminate|].
    destruct (b =? 125)%N; [inversion H; reflexivity|].
    destruct first.
    + destruct (b =? 34)%N; [exact (Hmem _ H)|discriminate].
    + destruct (b =? 44)%N; [|discriminate].
      destruct (skip_ws r) as [|c r']; [discriminate|].
      destruct (c =? 34)%N; [exact (Hmem _ H)|discriminate].
Qed.

(* whatever the real parse reads, the detection trial accepts *)
Theorem json_value_accepted_by_trial inp evs rest :
  json_value inp = (evs, JOk rest) -> json_trial_reader inp = true.
Proof.
  unfold json_value, json_trial_reader. intros H.
  rewrite (proj1 (parse_ignore (json_fuel inp)) _ _ _ _ H). reflexivity.
Qed.

(* ---------- xt recognises its own JSON output ---------- *)
From XtModel Require Import InputModel FormatsModel DetectModel SelfDetectProofs MsgpackTrialProofs.

(* the two trials that run before YAML, as xt runs them on a slice: the input is
   handed over as it is *)
Definition json_slice_trial : trial :=
  {| t_ops := [OPrefix 0];
     t_verdict := fun obs => match obs with [_; ObsPrefix (Ok p)] => Ok (json_trial_slice p) | _ => Ok false end |}.

Lemma json_slice_trial_verdict d : slice_verdict d json_slice_trial = Ok (json_trial_slice d).
Proof. reflexivity. Qed.

Definition is_collection (v : jval) : bool := match v with JArr _ | JObj _ => true | _ => false end.

(* the stream xt writes for one or more values is accepted by the JSON trial *)
Theorem own_json_accepted v vs : Forall (writable f_finite) (v :: vs) ->
  json_trial_slice (jwrite_docs json_f64 (v :: vs)) = true.
Proof.
  intros H. unfold json_trial_slice. apply andb_true_intro. split.
  - apply reader_ok_utf8.
    rewrite (json_reader_reads_docs json_f64 f_finite json_f64_reads_all json_f64_head_all (v :: vs) H). reflexivity.
  - change (jwrite_docs json_f64 (v :: vs)) with ((jwrite json_f64 v ++ [10%N]) ++ jwrite_docs json_f64 vs).
    rewrite <- app_assoc. cbn [app].
    inversion H as [|? ? Hv _]; subst.
    pose proof (json_value_reads_back json_f64 f_finite json_f64_reads_all json_f64_head_all v (10%N :: jwrite_docs json_f64 vs) Hv ltac:(reflexivity)) as R.
    pose proof (json_value_accepted_by_trial _ _ _ R) as A. unfold json_trial_reader in A. exact A.
Qed.

Theorem own_json_output_detected (sched : nat -> nat) (cutoff : nat) (toml_parses utf8 : bytes -> bool) (ty : trial) v vs :
  is_collection v = true -> Forall (writable f_finite) (v :: vs) ->
  snd (detect sched cutoff toml_parses (msgpack_slice_trial utf8) json_slice_trial ty
         (start (HSlice (jwrite_docs json_f64 (v :: vs))))) = Ok (Some Json).
Proof.
  intros Hc H.
  assert (Hb : exists b rest, jwrite_docs json_f64 (v :: vs) = b :: rest /\ (b = 123%N \/ b = 91%N)).
  { destruct v; try discriminate; cbn [jwrite_docs flat_map jwrite app]; eexists _, _; (split; [reflexivity|]); auto. }
  destruct Hb as (b & rest & Eb & Hb). pose proof (own_json_accepted v vs H) as A. rewrite Eb in *.
  apply (own_json_detected sched cutoff toml_parses utf8 (msgpack_slice_trial utf8) (msgpack_slice_trial_verdict utf8) b rest json_slice_trial ty Hb).
  rewrite json_slice_trial_verdict, A. reflexivity.
Qed.

(* ---------- every JSON stream that translates is detected as JSON ---------- *)

Lemma skip_ws_idem inp : skip_ws (skip_ws inp) = skip_ws inp.
Proof.
  induction inp as [|b r IH]; [reflexivity|]. cbn [skip_ws]. destruct (is_ws b) eqn:E; [exact IH|].
  cbn [skip_ws]. now rewrite E.
Qed.

Lemma parse_value_skip_ws f depth inp : parse_value f depth (skip_ws inp) = parse_value f depth inp.
Proof. destruct f as [|f]; [reflexivity|]. cbn [parse_value]. now rewrite skip_ws_idem. Qed.

Lemma skip_ws_head_ascii inp b r : skip_ws inp = b :: r -> (b < 128)%N -> exists c t, inp = c :: t /\ (c < 128)%N.
Proof.
  destruct inp as [|c t]; [discriminate|]. cbn [skip_ws]. destruct (is_ws c) eqn:E.
  - intros _ _. exists c, t. split; [reflexivity|]. unfold is_ws in E. lia.
  - intros H Hb. inversion H; subst. eauto.
Qed.

Lemma value_head_ascii f depth b r evs rest : is_ws b = false ->
  parse_value (S f) depth (b :: r) = (evs, JOk rest) -> (b < 128)%N.
Proof.
  intros W H. cbn [parse_value skip_ws] in H. rewrite W in H.
  destruct (b =? 110)%N eqn:E1; [lia|]. destruct (b =? 116)%N eqn:E2; [lia|]. destruct (b =? 102)%N eqn:E3; [lia|].
  destruct (b =? 45)%N eqn:E4; [lia|]. destruct (is_digit b) eqn:E5; [unfold is_digit in E5; lia|].
  destruct (b =? 34)%N eqn:E6; [lia|]. destruct (b =? 91)%N eqn:E7; [lia|]. destruct (b =? 123)%N eqn:E8; [lia|discriminate].
Qed.

Lemma skip_ws_head_not_ws inp b r : skip_ws inp = b :: r -> is_ws b = false.
Proof.
  induction inp as [|c t IH]; [discriminate|]. cbn [skip_ws]. destruct (is_ws c) eqn:E; [exact IH|].
  intros H. inversion H; subst. exact E.
Qed.

(* a JSON stream of at least one document that the reader loop translates to the
   end is accepted by the JSON trial, from a reader and from a slice alike *)
Theorem translatable_json_accepted inp d docs : json_reader inp = (d :: docs, JDone) ->
  json_trial_reader inp = true /\ json_trial_slice inp = true.
Proof.
  intros H.
  assert (Hu : utf8_valid inp = true) by (apply reader_ok_utf8; rewrite H; reflexivity).
  assert (Hr : json_trial_reader inp = true).
  { unfold json_reader in H. cbn [json_reader_loop] in H.
    destruct (skip_ws inp) as [|b r] eqn:Es; [discriminate|].
    destruct (json_value (b :: r)) as [evs [rest|e]] eqn:Ev; [|discriminate].
    apply (json_value_accepted_by_trial inp evs rest). apply (json_value_any_fuel (json_fuel (b :: r))).
    rewrite <- parse_value_skip_ws, Es. exact Ev. }
  split; [exact Hr|]. unfold json_trial_slice. rewrite Hu. exact Hr.
Qed.

Theorem translatable_json_detected (sched : nat -> nat) (cutoff : nat) (toml_parses utf8 : bytes -> bool) (ty : trial) inp d docs :
  json_reader inp = (d :: docs, JDone) ->
  snd (detect sched cutoff toml_parses (msgpack_slice_trial utf8) json_slice_trial ty (start (HSlice inp))) = Ok (Some Json).
Proof.
  intros H. destruct (translatable_json_accepted inp d docs H) as (_ & Hs).
  assert (Hh : exists c t, inp = c :: t /\ (c < 128)%N).
  { unfold json_reader in H. cbn [json_reader_loop] in H.
    destruct (skip_ws inp) as [|b r] eqn:Es; [discriminate|].
    destruct (json_value (b :: r)) as [evs [rest|e]] eqn:Ev; [|discriminate].
    apply (skip_ws_head_ascii inp b r Es). unfold json_value, json_fuel in Ev.
    exact (value_head_ascii _ _ _ _ _ _ (skip_ws_head_not_ws _ _ _ Es) Ev). }
  destruct Hh as (c & t & -> & Hc).
  rewrite detect_slice_order. unfold cascade.
  rewrite msgpack_slice_trial_verdict, msgpack_needs_collection_marker by (apply ascii_not_marker; exact Hc).
  rewrite json_slice_trial_verdict, Hs. reflexivity.
Qed.

(* the two forms of the JSON trial differ only by the slice form's upfront UTF-8
   check: on valid UTF-8 - at any nesting depth, there is no recursion limit in
   the trial - they give the same verdict *)
Theorem json_trial_forms_agree inp : utf8_valid inp = true -> json_trial_slice inp = json_trial_reader inp.
Proof. intros H. unfold json_trial_slice, json_trial_reader. now rewrite H. Qed.
