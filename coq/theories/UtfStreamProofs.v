(* UtfStreamProofs.v — the UTF-16/32 -> UTF-8 re-encoder, stream level (C07):
   for every text (list of Unicode scalar values), either width, either byte
   order, with or without a leading byte order mark, and EVERY sequence of read
   buffer sizes, what libyaml reads through the re-encoder is the UTF-8 of the
   text (less one leading U+FEFF): never an error, never a byte more or less,
   characters and their UTF-8 expansions split across reads wherever the buffer
   ends fall.  Also: every read fills its buffer unless the text is exhausted
   (the formal root of the known finding K-C05). *)
From XtModel Require Import Base Utf8 UtfModel UtfProofs.
Require Import ZifyBool ZifyNat ZifyN.
Ltac Zify.zify_post_hook ::= Z.div_mod_to_equations.

Definition scalars (cs : list N) : Prop := Forall (fun c => is_scalar c = true) cs.

Definition encode_as (w bg : bool) (cs : list N) : bytes :=
  if w then utf32_encode bg cs else utf16_encode bg cs.

(* the decoder stands in front of the encoding of [cs] *)
Definition dec_at (d : dstate) (cs : list N) : Prop :=
  rest d = encode_as (wide d) (big d) cs /\ ubuf d = None.

Lemma scalar_lt c : is_scalar c = true -> (c <= 1114111)%N.
Proof. unfold is_scalar. lia. Qed.

(* ---------- one character ---------- *)

Lemma next_u16_enc d u r :
  (u < 65536)%N -> rest d = enc_u16 (big d) u ++ r ->
  next_u16 d = USome u (dstate_with d r (dpos d + 2)%N (ubuf d)).
Proof.
  intros Hu Hr. unfold next_u16. rewrite Hr. unfold enc_u16.
  destruct (big d) eqn:Hb; cbn [app]; f_equal; unfold decode_u16; lia.
Qed.

Lemma utf16_next_enc d c cs :
  is_scalar c = true -> ubuf d = None -> rest d = utf16_encode (big d) (c :: cs) ->
  exists d', utf16_next d = CSome c d' /\ rest d' = utf16_encode (big d) cs /\ ubuf d' = None /\
             wide d' = wide d /\ big d' = big d.
Proof.
  intros Hs Hub Hr. unfold utf16_encode in Hr. cbn [flat_map] in Hr. fold (utf16_encode (big d) cs) in Hr.
  pose proof (scalar_lt c Hs) as Hmax. unfold is_scalar in Hs.
  unfold utf16_next. rewrite Hub.
  destruct (c <? 65536)%N eqn:E.
  - rewrite (utf16_bmp_unit c) in Hr by lia. cbn [flat_map] in Hr. rewrite app_nil_r in Hr.
    rewrite (next_u16_enc d c _ ltac:(lia) Hr).
    destruct ((c <? 55296) || (57344 <=? c))%N eqn:E1; [|lia].
    eexists. split; [reflexivity|]. cbn [dstate_with rest ubuf wide big]. auto.
  - unfold utf16_units in Hr. rewrite E in Hr. cbn [flat_map] in Hr. rewrite app_nil_r, <- app_assoc in Hr.
    set (lead := (55296 + (c - 65536) / 1024)%N) in *.
    set (trail := (56320 + (c - 65536) mod 1024)%N) in *.
    assert (Hl : (55296 <= lead <= 56319)%N) by (subst lead; lia).
    assert (Ht : (56320 <= trail <= 57343)%N) by (subst trail; lia).
    rewrite (next_u16_enc d lead _ ltac:(lia) Hr), Hub.
    destruct ((lead <? 55296) || (57344 <=? lead))%N eqn:E1; [lia|].
    destruct (56320 <=? lead)%N eqn:E2; [lia|].
    set (d1 := dstate_with d (enc_u16 (big d) trail ++ utf16_encode (big d) cs) (dpos d + 2)%N None).
    assert (Hr1 : rest d1 = enc_u16 (big d1) trail ++ utf16_encode (big d) cs) by reflexivity.
    rewrite (next_u16_enc d1 trail _ ltac:(lia) Hr1).
    destruct (negb ((56320 <=? trail) && (trail <=? 57343)))%N eqn:E3; [lia|].
    eexists. split.
    + f_equal. subst lead trail. lia.
    + cbn [dstate_with rest ubuf wide big d1]. auto.
Qed.

Lemma utf32_next_enc d c cs :
  is_scalar c = true -> rest d = utf32_encode (big d) (c :: cs) ->
  exists d', utf32_next d = CSome c d' /\ rest d' = utf32_encode (big d) cs /\ ubuf d' = ubuf d /\
             wide d' = wide d /\ big d' = big d.
Proof.
  intros Hs Hr. unfold utf32_encode in Hr. cbn [flat_map] in Hr. fold (utf32_encode (big d) cs) in Hr.
  pose proof (scalar_lt c Hs) as Hmax.
  pose proof (u32_bytes_roundtrip (big d) c ltac:(lia)) as H.
  destruct (enc_u32 (big d) c) as [|a [|b [|c0 [|e [|x xs]]]]]; try contradiction.
  destruct H as (_ & _ & _ & _ & Hdec).
  unfold utf32_next. rewrite Hr. cbn [app]. rewrite Hdec, Hs.
  eexists. split; [reflexivity|]. cbn [dstate_with rest ubuf wide big]. auto.
Qed.

Lemma dec_next_cons d c cs :
  is_scalar c = true -> dec_at d (c :: cs) ->
  exists d', dec_next d = CSome c d' /\ dec_at d' cs /\ wide d' = wide d /\ big d' = big d.
Proof.
  intros Hs [Hr Hub]. unfold dec_next, encode_as in *. destruct (wide d) eqn:Hw.
  - destruct (utf32_next_enc d c cs Hs Hr) as (d' & H1 & H2 & H3 & H4 & H5).
    exists d'. split; [exact H1|]. split; [|split; congruence].
    unfold dec_at, encode_as. rewrite H4, Hw, H5. split; congruence.
  - destruct (utf16_next_enc d c cs Hs Hub Hr) as (d' & H1 & H2 & H3 & H4 & H5).
    exists d'. split; [exact H1|]. split; [|split; congruence].
    unfold dec_at, encode_as. rewrite H4, Hw, H5. split; congruence.
Qed.

Lemma dec_next_nil d : dec_at d [] -> dec_next d = CNone d.
Proof.
  intros [Hr Hub]. unfold dec_next, encode_as in *.
  destruct (wide d); cbn in Hr.
  - unfold utf32_next. now rewrite Hr.
  - unfold utf16_next, next_u16. now rewrite Hub, Hr.
Qed.

(* ---------- the encoder's state ---------- *)

Definition strip_bom (cs : list N) : list N :=
  match cs with
  | c :: t => if (c =? 65279)%N then t else cs
  | [] => []
  end.

Definition effective (e : estate) (cs : list N) : list N :=
  if started e then cs else strip_bom cs.

(* what is still to be delivered *)
Definition pending (e : estate) (cs : list N) : bytes :=
  remainder e ++ utf8_encode_all (effective e cs).

Definition enc_at (e : estate) (cs : list N) : Prop :=
  dec_at (dec_ e) cs /\ scalars cs /\ (started e = false -> remainder e = []).

Lemma scalars_tail c cs : scalars (c :: cs) -> is_scalar c = true /\ scalars cs.
Proof. intros H. inversion H; subst. split; assumption. Qed.

Lemma enc_next_char_spec e cs :
  enc_at e cs ->
  (effective e cs = [] /\ exists d, enc_next_char e = (CNone d, true) /\ dec_at d []) \/
  (exists c t d, effective e cs = c :: t /\ enc_next_char e = (CSome c d, true) /\ dec_at d t /\ scalars t).
Proof.
  intros (Hd & Hs & _). unfold enc_next_char, effective. destruct (started e) eqn:Hst.
  - destruct cs as [|c t].
    + left. split; [reflexivity|]. exists (dec_ e). now rewrite (dec_next_nil _ Hd).
    + destruct (scalars_tail c t Hs) as [Hc Ht].
      destruct (dec_next_cons _ c t Hc Hd) as (d' & H1 & H2 & _).
      right. exists c, t, d'. rewrite H1. auto.
  - destruct cs as [|c t]; cbn [strip_bom].
    + left. split; [reflexivity|]. exists (dec_ e). now rewrite (dec_next_nil _ Hd).
    + destruct (scalars_tail c t Hs) as [Hc Ht].
      destruct (dec_next_cons _ c t Hc Hd) as (d' & H1 & H2 & _). rewrite H1.
      destruct (c =? 65279)%N eqn:Eb.
      * destruct t as [|c2 t2].
        -- left. split; [reflexivity|]. exists d'. now rewrite (dec_next_nil _ H2).
        -- destruct (scalars_tail c2 t2 Ht) as [Hc2 Ht2].
           destruct (dec_next_cons _ c2 t2 Hc2 H2) as (d2 & H3 & H4 & _).
           right. exists c2, t2, d2. rewrite H3. auto.
      * right. exists c, t, d'. auto.
Qed.

Lemma utf8_encode_nonempty c : 1 <= length (utf8_encode c).
Proof. unfold utf8_encode. repeat match goal with |- context [if ?b then _ else _] => destruct b end; cbn [length]; lia. Qed.

Lemma emit_loop_room0 f w e : emit_loop f 0 w e = ROk w e.
Proof. destruct f; reflexivity. Qed.

Lemma firstn_nonempty {A} (l : list A) n : 1 <= n -> 1 <= length l -> firstn n l <> [].
Proof. destruct n, l; cbn; intros; try lia; discriminate. Qed.

(* ---------- the emit loop ---------- *)

Lemma emit_loop_spec : forall fuel room written e cs,
  enc_at e cs -> remainder e = [] ->
  exists out e' cs',
    emit_loop fuel room written e = ROk (written ++ out) e' /\
    enc_at e' cs' /\
    pending e cs = out ++ pending e' cs' /\
    length out <= room /\
    (0 < fuel -> 0 < room -> out = [] -> pending e cs = []) /\
    (room < fuel -> length out = room \/ pending e' cs' = []).
Proof.
  induction fuel as [|f IH]; intros room written e cs He Hrem.
  - exists [], e, cs. cbn [emit_loop]. rewrite app_nil_r.
    split; [reflexivity|]. split; [exact He|]. split; [reflexivity|]. split; [cbn [length]; lia|].
    split; intros; lia.
  - cbn [emit_loop]. destruct (room =? 0) eqn:Er.
    + apply Nat.eqb_eq in Er. subst room.
      exists [], e, cs. rewrite app_nil_r.
      split; [reflexivity|]. split; [exact He|]. split; [reflexivity|]. split; [cbn [length]; lia|].
      split; [intros; lia|intros; left; reflexivity].
    + apply Nat.eqb_neq in Er.
      destruct (enc_next_char_spec e cs He) as [(Heff & d & Hn & Hd)|(c & t & d & Heff & Hn & Hd & Ht)]; rewrite Hn.
      * (* end of the text *)
        set (e1 := {| dec_ := d; started := true; remainder := remainder e |}).
        exists [], e1, []. rewrite app_nil_r. split; [reflexivity|].
        assert (P0 : pending e cs = []) by (unfold pending; now rewrite Hrem, Heff).
        assert (P1 : pending e1 [] = []) by (unfold pending, effective; cbn; now rewrite Hrem).
        split; [split; [exact Hd|split; [constructor|discriminate]]|].
        split; [now rewrite P0, P1|]. split; [cbn; lia|]. split; [auto|auto].
      * (* a character *)
        set (enc := utf8_encode c) in *.
        set (emit_len := Nat.min (length enc) room) in *.
        pose proof (utf8_encode_nonempty c) as Hne. fold enc in Hne.
        assert (P0 : pending e cs = enc ++ utf8_encode_all t).
        { unfold pending. rewrite Hrem, Heff. reflexivity. }
        destruct (room - emit_len =? 0) eqn:Ez.
        -- (* the buffer is full: the rest of the character is kept *)
           apply Nat.eqb_eq in Ez.
           assert (Hr0 : room - emit_len = 0) by exact Ez. rewrite Hr0, emit_loop_room0.
           set (e1 := {| dec_ := d; started := true; remainder := skipn emit_len enc |}).
           exists (firstn emit_len enc), e1, t. split; [reflexivity|].
           split; [split; [exact Hd|split; [exact Ht|discriminate]]|].
           split.
           { rewrite P0. unfold pending, effective. cbn [started remainder e1].
             rewrite app_assoc, firstn_skipn. reflexivity. }
           split; [rewrite firstn_length; lia|].
           split.
           { intros _ _ Hnil. exfalso. revert Hnil. apply firstn_nonempty; lia. }
           { intros _. left. rewrite firstn_length. lia. }
        -- (* room is left: the whole character went out *)
           apply Nat.eqb_neq in Ez.
           assert (Hel : emit_len = length enc) by lia.
           assert (Hfn : firstn emit_len enc = enc) by (rewrite Hel; apply firstn_all).
           rewrite Hfn.
           set (e1 := {| dec_ := d; started := true; remainder := remainder e |}).
           assert (He1 : enc_at e1 t) by (split; [exact Hd|split; [exact Ht|discriminate]]).
           destruct (IH (room - emit_len) (written ++ enc) e1 t He1 Hrem)
             as (out2 & e' & cs' & Hrun & He' & Hp & Hlen & _ & Hfill).
           exists (enc ++ out2), e', cs'. rewrite app_assoc. split; [exact Hrun|].
           split; [exact He'|].
           assert (P1 : pending e1 t = utf8_encode_all t) by (unfold pending, effective; cbn; now rewrite Hrem).
           split; [rewrite P0, <- app_assoc, <- Hp, P1; reflexivity|].
           split; [rewrite app_length; lia|].
           split.
           { intros _ _ Hnil. destruct enc; [cbn in Hne; lia|discriminate]. }
           { intros Hlt. destruct (Hfill ltac:(lia)) as [Hl|Hl]; [left; rewrite app_length; lia|now right]. }
Qed.

(* ---------- read() ---------- *)

Lemma enc_read_spec e cs n :
  enc_at e cs ->
  exists out e' cs',
    enc_read e n = ROk out e' /\ enc_at e' cs' /\
    pending e cs = out ++ pending e' cs' /\
    length out <= n /\
    (0 < n -> out = [] -> pending e cs = []) /\
    (length out = n \/ pending e' cs' = []).
Proof.
  intros He. destruct He as (Hd & Hs & Hst). unfold enc_read.
  set (k := Nat.min n (length (remainder e))).
  pose proof (firstn_skipn k (remainder e)) as Hsplit.
  destruct (skipn k (remainder e)) as [|b l] eqn:Hrem.
  - set (e0 := {| dec_ := dec_ e; started := started e; remainder := [] |}).
    assert (He0 : enc_at e0 cs) by (split; [exact Hd|split; [exact Hs|reflexivity]]).
    destruct (emit_loop_spec (S n) (n - k) (firstn k (remainder e)) e0 cs He0 eq_refl)
      as (out2 & e' & cs' & Hrun & He' & Hp & Hlen & Heof & Hfill).
    exists (firstn k (remainder e) ++ out2), e', cs'. split; [exact Hrun|]. split; [exact He'|].
    rewrite app_nil_r in Hsplit.
    assert (P0 : pending e cs = firstn k (remainder e) ++ pending e0 cs).
    { unfold pending, effective. cbn [started remainder e0 app]. now rewrite Hsplit. }
    split; [rewrite P0, Hp, app_assoc; reflexivity|].
    assert (Hk : length (firstn k (remainder e)) = k) by (rewrite firstn_length; lia).
    split; [rewrite app_length; lia|].
    split.
    + intros Hn Hnil. apply app_eq_nil in Hnil. destruct Hnil as [H1 H2].
      rewrite H1 in Hk. cbn in Hk.
      rewrite P0, H1. cbn [app]. apply Heof; [lia|lia|exact H2].
    + destruct (Hfill ltac:(lia)) as [Hl|Hl]; [left; rewrite app_length; lia|now right].
  - set (e0 := {| dec_ := dec_ e; started := started e; remainder := b :: l |}).
    assert (Hlen : length (skipn k (remainder e)) = length (remainder e) - k) by apply skipn_length.
    rewrite Hrem in Hlen. cbn [length] in Hlen.
    assert (Hkn : k = n) by lia.
    exists (firstn k (remainder e)), e0, cs. split; [reflexivity|].
    split.
    { split; [exact Hd|split; [exact Hs|]]. intros Hf. cbn [started e0] in Hf.
      rewrite (Hst Hf) in Hrem. destruct k; discriminate. }
    split.
    { unfold pending, effective. cbn [started remainder e0]. rewrite <- Hsplit at 1. now rewrite <- app_assoc. }
    assert (Hk : length (firstn k (remainder e)) = k) by (rewrite firstn_length; lia).
    split; [lia|]. split.
    + intros Hn Hnil. rewrite Hnil in Hk. cbn in Hk. lia.
    + left. lia.
Qed.

(* ---------- a sequence of reads ---------- *)

Lemma read_seq_recode : forall sizes e cs,
  enc_at e cs ->
  exists rest', pending e cs = fst (read_seq (Recode e) sizes) ++ rest' /\
    (forall err, snd (read_seq (Recode e) sizes) <> Failed err) /\
    (snd (read_seq (Recode e) sizes) = AtEof -> rest' = []).
Proof.
  induction sizes as [|n sizes IH]; intros e cs He.
  - exists (pending e cs). cbn. split; [reflexivity|]. split; [discriminate|discriminate].
  - cbn [read_seq encoder_read].
    destruct (enc_read_spec e cs n He) as (out & e' & cs' & Hr & He' & Hp & Hlen & Heof & _).
    rewrite Hr.
    destruct (IH e' cs' He') as (rest' & Hp' & Hnf & Hend).
    destruct out as [|b out].
    + destruct n as [|m].
      * destruct (read_seq (Recode e') sizes) as [more fin]. cbn [fst snd] in *.
        exists rest'. split; [rewrite Hp; cbn [app]; exact Hp'|]. split; assumption.
      * exists []. cbn [fst snd]. split; [rewrite (Heof ltac:(lia) eq_refl); reflexivity|].
        split; [discriminate|reflexivity].
    + assert (G : exists rest'0, pending e cs = ((b :: out) ++ fst (read_seq (Recode e') sizes)) ++ rest'0 /\
                    (forall err, snd (read_seq (Recode e') sizes) <> Failed err) /\
                    (snd (read_seq (Recode e') sizes) = AtEof -> rest'0 = [])).
      { exists rest'. split; [rewrite Hp, Hp', app_assoc; reflexivity|]. split; assumption. }
      destruct n; destruct (read_seq (Recode e') sizes) as [more fin]; exact G.
Qed.

Definition enc_of (w bg : bool) : encoding :=
  match w, bg with
  | false, true => Utf16Big
  | false, false => Utf16Little
  | true, true => Utf32Big
  | true, false => Utf32Little
  end.

Lemma encoder_new_at w bg cs :
  scalars cs ->
  exists e, encoder_new (encode_as w bg cs) (enc_of w bg) = Recode e /\ enc_at e cs /\
            pending e cs = utf8_encode_all (strip_bom cs).
Proof.
  intros Hs. unfold encoder_new, enc_of.
  destruct w, bg; eexists; (split; [reflexivity|]);
    (split; [split; [split; reflexivity|split; [exact Hs|reflexivity]]|reflexivity]).
Qed.

(* The re-encoded stream is the UTF-8 of the text, whatever the buffer sizes. *)
Theorem reencoded_stream_exact w bg cs sizes :
  scalars cs ->
  let r := read_seq (encoder_new (encode_as w bg cs) (enc_of w bg)) sizes in
  prefix_of (fst r) (utf8_encode_all (strip_bom cs)) /\
  (forall err, snd r <> Failed err) /\
  (snd r = AtEof -> fst r = utf8_encode_all (strip_bom cs)).
Proof.
  intros Hs. destruct (encoder_new_at w bg cs Hs) as (e & -> & He & Hp). cbn zeta.
  destruct (read_seq_recode sizes e cs He) as (rest' & Hq & Hnf & Hend).
  rewrite Hp in Hq. split; [now exists rest'|]. split; [exact Hnf|].
  intros H. rewrite (Hend H), app_nil_r in Hq. now symmetry.
Qed.

(* ... and so is it when the encoding is detected from the first bytes. *)
Theorem reencoded_stream_detected w bg cs sizes :
  scalars cs -> starts_ok cs ->
  let r := read_seq (encoder_from_reader (encode_as w bg cs)) sizes in
  prefix_of (fst r) (utf8_encode_all (strip_bom cs)) /\
  (forall err, snd r <> Failed err) /\
  (snd r = AtEof -> fst r = utf8_encode_all (strip_bom cs)).
Proof.
  intros Hs Hst. unfold encoder_from_reader.
  assert (Hdet : detect (firstn 4 (encode_as w bg cs)) = enc_of w bg).
  { unfold encode_as, enc_of. destruct w.
    - rewrite (detect_utf32 bg cs Hst). now destruct bg.
    - rewrite (detect_utf16 bg cs Hst). now destruct bg. }
  rewrite Hdet. now apply reencoded_stream_exact.
Qed.

(* Every read() of the re-encoder fills the buffer it is given unless the text
   ends first: it never returns early at a character or document boundary. *)
Theorem reencoder_fills_request e cs n :
  enc_at e cs ->
  exists out e' cs', enc_read e n = ROk out e' /\ enc_at e' cs' /\
    (length out = n \/ pending e' cs' = []).
Proof.
  intros He. destruct (enc_read_spec e cs n He) as (out & e' & cs' & H1 & H2 & _ & _ & _ & H3).
  now exists out, e', cs'.
Qed.

(* non-vacuity: U+FEFF, 'a', U+00E9, U+1F600 in UTF-16LE read 1, 2, 3, ... bytes at a time *)
Example reencoded_example :
  read_seq (encoder_new (encode_as false false [65279; 97; 233; 128512]%N) Utf16Little) [1; 2; 3; 4; 5] =
  ([97; 195; 169; 240; 159; 152; 128]%N, AtEof).
Proof. vm_compute. reflexivity. Qed.

(* ====================================================================== *)
(* The converse: whatever the input bytes, if reading through the re-encoder
   reaches the end of the stream without an error, the input IS the UTF-16/32
   encoding of a sequence of Unicode scalar values and what was read is the
   UTF-8 of exactly that sequence (less one leading U+FEFF).  So ill-formed
   input - an unpaired or reversed surrogate, a truncated unit, a value above
   U+10FFFF or in the surrogate range - can only end in an error; no byte
   string is ever turned into characters it does not encode. *)

Definition bytes_lt (bs : bytes) : Prop := Forall (fun b => (b < 256)%N) bs.

Lemma enc_decode_u16 bg a b : (a < 256)%N -> (b < 256)%N -> enc_u16 bg (decode_u16 bg a b) = [a; b].
Proof. intros Ha Hb. unfold enc_u16, decode_u16. destruct bg; repeat f_equal; lia. Qed.

Lemma enc_decode_u32 bg a b c e :
  (a < 256)%N -> (b < 256)%N -> (c < 256)%N -> (e < 256)%N ->
  enc_u32 bg (decode_u32 bg a b c e) = [a; b; c; e].
Proof.
  intros Ha Hb Hc He. unfold enc_u32, decode_u32. destruct bg; cbn zeta; repeat f_equal; lia.
Qed.

Lemma encode_as_snoc w bg cs c : encode_as w bg (cs ++ [c]) = encode_as w bg cs ++ encode_as w bg [c].
Proof. unfold encode_as, utf16_encode, utf32_encode. destruct w; apply flat_map_app. Qed.

Lemma next_u16_inv d u d' :
  bytes_lt (rest d) -> next_u16 d = USome u d' ->
  (u < 65536)%N /\ rest d = enc_u16 (big d) u ++ rest d' /\ ubuf d' = ubuf d /\
  wide d' = wide d /\ big d' = big d /\ bytes_lt (rest d').
Proof.
  intros Hb. unfold next_u16. destruct (rest d) as [|a [|b r]] eqn:E; try discriminate.
  intros [= <- <-]. inversion Hb as [|? ? Ha Hb1]; subst. inversion Hb1 as [|? ? Hb' Hb2]; subst.
  cbn [dstate_with rest ubuf wide big]. rewrite enc_decode_u16 by assumption.
  split; [unfold decode_u16; destruct (big d); lia|]. repeat split; auto.
Qed.

Lemma utf16_next_some_inv d c d' :
  bytes_lt (rest d) -> ubuf d = None -> utf16_next d = CSome c d' ->
  is_scalar c = true /\ rest d = utf16_encode (big d) [c] ++ rest d' /\ ubuf d' = None /\
  wide d' = wide d /\ big d' = big d /\ bytes_lt (rest d').
Proof.
  intros Hb Hub. unfold utf16_next. rewrite Hub.
  destruct (next_u16 d) as [|err|lead d1] eqn:E1; try discriminate.
  destruct (next_u16_inv d lead d1 Hb E1) as (Hl & Hr & Hu1 & Hw1 & Hb1 & Hbl1).
  unfold utf16_encode. cbn [flat_map]. rewrite app_nil_r.
  destruct ((lead <? 55296) || (57344 <=? lead))%N eqn:Ea.
  - intros [= <- <-]. rewrite (utf16_bmp_unit lead Hl). cbn [flat_map]. rewrite app_nil_r.
    split; [unfold is_scalar; lia|]. split; [exact Hr|]. split; [congruence|]. auto.
  - destruct (56320 <=? lead)%N eqn:Eb; [discriminate|].
    destruct (next_u16 d1) as [|err|trail d2] eqn:E2; try discriminate.
    destruct (next_u16_inv d1 trail d2 Hbl1 E2) as (Ht & Hr2 & Hu2 & Hw2 & Hb2 & Hbl2).
    destruct (negb ((56320 <=? trail) && (trail <=? 57343)))%N eqn:Ec; [discriminate|].
    intros [= <- <-].
    set (c := (65536 + ((lead - 55296) * 1024 + (trail - 56320)))%N).
    assert (Hc : (65536 <= c <= 1114111)%N) by (subst c; lia).
    assert (Hunits : utf16_units c = [lead; trail]).
    { unfold utf16_units. destruct (c <? 65536)%N eqn:E; [lia|]. subst c. repeat f_equal; lia. }
    rewrite Hunits. cbn [flat_map]. rewrite app_nil_r, <- app_assoc.
    split; [unfold is_scalar; lia|]. split; [rewrite Hr, Hr2, Hb1; reflexivity|].
    split; [congruence|]. split; [congruence|]. split; [congruence|exact Hbl2].
Qed.

Lemma utf16_next_none_inv d d' : ubuf d = None -> utf16_next d = CNone d' -> rest d = [] /\ d' = d.
Proof.
  intros Hub. unfold utf16_next. rewrite Hub. unfold next_u16 at 1.
  destruct (rest d) as [|a [|b r]] eqn:E.
  - intros [= <-]. auto.
  - discriminate.
  - repeat match goal with
           | |- context [if ?x then _ else _] => destruct x
           | |- context [match next_u16 ?x with _ => _ end] => destruct (next_u16 x)
           end; discriminate.
Qed.

Lemma utf32_next_some_inv d c d' :
  bytes_lt (rest d) -> utf32_next d = CSome c d' ->
  is_scalar c = true /\ rest d = utf32_encode (big d) [c] ++ rest d' /\ ubuf d' = ubuf d /\
  wide d' = wide d /\ big d' = big d /\ bytes_lt (rest d').
Proof.
  intros Hb. unfold utf32_next. destruct (rest d) as [|a [|b [|c0 [|e r]]]] eqn:E; try discriminate.
  destruct (is_scalar (decode_u32 (big d) a b c0 e)) eqn:Es; [|discriminate].
  intros [= <- <-]. cbn [dstate_with rest ubuf wide big].
  inversion Hb as [|? ? Ha H1]; subst. inversion H1 as [|? ? Hb' H2]; subst.
  inversion H2 as [|? ? Hc H3]; subst. inversion H3 as [|? ? He H4]; subst.
  unfold utf32_encode. cbn [flat_map]. rewrite app_nil_r, enc_decode_u32 by assumption.
  repeat split; auto.
Qed.

Lemma utf32_next_none_inv d d' : utf32_next d = CNone d' -> rest d = [] /\ d' = d.
Proof.
  unfold utf32_next. destruct (rest d) as [|a [|b [|c0 [|e r]]]]; try discriminate.
  - intros [= <-]. auto.
  - destruct (is_scalar _); discriminate.
Qed.

Lemma dec_next_some_inv d c d' :
  bytes_lt (rest d) -> ubuf d = None -> dec_next d = CSome c d' ->
  is_scalar c = true /\ rest d = encode_as (wide d) (big d) [c] ++ rest d' /\ ubuf d' = None /\
  wide d' = wide d /\ big d' = big d /\ bytes_lt (rest d').
Proof.
  intros Hb Hub. unfold dec_next, encode_as. destruct (wide d) eqn:Hw; intros H.
  - destruct (utf32_next_some_inv d c d' Hb H) as (H1 & H2 & H3 & H4 & H5 & H6).
    repeat split; auto; congruence.
  - destruct (utf16_next_some_inv d c d' Hb Hub H) as (H1 & H2 & H3 & H4 & H5 & H6).
    repeat split; auto; congruence.
Qed.

Lemma dec_next_none_inv d d' : ubuf d = None -> dec_next d = CNone d' -> rest d = [] /\ d' = d.
Proof.
  intros Hub. unfold dec_next. destruct (wide d); [apply utf32_next_none_inv|now apply utf16_next_none_inv].
Qed.

Section Converse.
  Variables (w bg : bool) (input : bytes).

  (* [cs] has been decoded so far and [acc] delivered *)
  Record ginv (e : estate) (acc : bytes) (cs : list N) : Prop := {
    g_scalars : scalars cs;
    g_input : input = encode_as w bg cs ++ rest (dec_ e);
    g_ubuf : ubuf (dec_ e) = None;
    g_wide : wide (dec_ e) = w;
    g_big : big (dec_ e) = bg;
    g_bytes : bytes_lt (rest (dec_ e));
    g_out : acc ++ remainder e = utf8_encode_all (if started e then strip_bom cs else []);
    g_start : started e = false -> cs = [] /\ remainder e = [];
    g_empty : started e = true -> cs = [] -> rest (dec_ e) = [];
  }.

  Lemma scalars_snoc cs c : scalars cs -> is_scalar c = true -> scalars (cs ++ [c]).
  Proof. intros H Hc. apply Forall_app. split; [exact H|]. constructor; [exact Hc|constructor]. Qed.

  Lemma strip_bom_snoc cs c : cs <> [] -> strip_bom (cs ++ [c]) = strip_bom cs ++ [c].
  Proof. destruct cs as [|x t]; [congruence|]. intros _. cbn [strip_bom app]. now destruct (x =? 65279)%N. Qed.

  Lemma utf8_all_snoc cs c : utf8_encode_all (cs ++ [c]) = utf8_encode_all cs ++ utf8_encode c.
  Proof. unfold utf8_encode_all. rewrite flat_map_app. cbn [flat_map]. now rewrite app_nil_r. Qed.

  (* what one call of next_char does to the invariant (remainder empty) *)
  Lemma enc_next_char_inv e acc cs :
    ginv e acc cs -> remainder e = [] ->
    match enc_next_char e with
    | (CNone d, st) =>
        st = true /\ exists cs', ginv {| dec_ := d; started := true; remainder := [] |} acc cs' /\ rest d = []
    | (CSome c d, st) =>
        st = true /\ exists cs', ginv {| dec_ := d; started := true; remainder := [] |} (acc ++ utf8_encode c) cs'
    | (CErr _ _, _) => True
    end.
  Proof.
    intros G Hrem. destruct G as [Gs Gi Gu Gw Gb Gy Go Gst Ge]. rewrite Hrem, app_nil_r in Go.
    unfold enc_next_char. destruct (started e) eqn:Hst.
    - destruct (dec_next (dec_ e)) as [d|err d|c d] eqn:En; [| exact I |].
      + destruct (dec_next_none_inv _ _ Gu En) as [Hr ->]. split; [reflexivity|].
        exists cs. split; [|exact Hr].
        constructor; cbn [dec_ started remainder]; auto; try discriminate. now rewrite app_nil_r.
      + destruct (dec_next_some_inv _ _ _ Gy Gu En) as (Hc & Hr & Hu & Hw' & Hb' & Hy).
        split; [reflexivity|]. exists (cs ++ [c]).
        assert (Hne : cs <> []).
        { intros ->. rewrite (Ge eq_refl eq_refl) in Hr. rewrite Gw, Gb in Hr.
          destruct (encode_as w bg [c]) eqn:Eenc; [|discriminate].
          revert Eenc. unfold encode_as, utf16_encode, utf32_encode, enc_u32, utf16_units, enc_u16.
          destruct w, bg; cbn [flat_map]; try discriminate;
            destruct (c <? 65536)%N; cbn [flat_map app]; discriminate. }
        constructor; cbn [dec_ started remainder]; auto; try discriminate.
        * now apply scalars_snoc.
        * rewrite encode_as_snoc, <- app_assoc, <- Gw, <- Gb, <- Hr, Gw, Gb. exact Gi.
        * congruence.
        * congruence.
        * rewrite app_nil_r, strip_bom_snoc, utf8_all_snoc by exact Hne. now rewrite Go.
        * intros _ Hnil. destruct cs; discriminate.
    - destruct (Gst eq_refl) as [-> _]. cbn [utf8_encode_all flat_map] in Go. subst acc.
      cbn [encode_as] in Gi.
      assert (Gi' : input = rest (dec_ e)) by (rewrite Gi; unfold encode_as, utf16_encode, utf32_encode; destruct w; reflexivity).
      destruct (dec_next (dec_ e)) as [d|err d|c d] eqn:En; [| exact I |].
      + destruct (dec_next_none_inv _ _ Gu En) as [Hr ->]. split; [reflexivity|].
        exists []. split; [|exact Hr].
        constructor; cbn [dec_ started remainder]; auto; try discriminate.
      + destruct (dec_next_some_inv _ _ _ Gy Gu En) as (Hc & Hr & Hu & Hw' & Hb' & Hy).
        rewrite Gw, Gb in Hr.
        destruct (c =? 65279)%N eqn:Eb.
        * destruct (dec_next d) as [d2|err d2|c2 d2] eqn:En2; [| exact I |].
          -- destruct (dec_next_none_inv _ _ Hu En2) as [Hr2 ->]. split; [reflexivity|].
             exists [c]. split; [|exact Hr2].
             constructor; cbn [dec_ started remainder]; auto; try discriminate.
             ++ constructor; [exact Hc|constructor].
             ++ rewrite Gi', Hr. reflexivity.
             ++ congruence.
             ++ congruence.
             ++ cbn [strip_bom]. now rewrite Eb.
          -- destruct (dec_next_some_inv _ _ _ Hy Hu En2) as (Hc2 & Hr2 & Hu2 & Hw2 & Hb2 & Hy2).
             split; [reflexivity|]. exists [c; c2].
             constructor; cbn [dec_ started remainder]; auto; try discriminate.
             ++ constructor; [exact Hc|constructor; [exact Hc2|constructor]].
             ++ change [c; c2] with ([c] ++ [c2]). rewrite encode_as_snoc, <- app_assoc.
                rewrite Gi', Hr, Hr2, Hw', Hb', Gw, Gb. reflexivity.
             ++ congruence.
             ++ congruence.
             ++ cbn [strip_bom app]. rewrite Eb. cbn [utf8_encode_all flat_map]. now rewrite !app_nil_r.
        * split; [reflexivity|]. exists [c].
          constructor; cbn [dec_ started remainder]; auto; try discriminate.
          -- constructor; [exact Hc|constructor].
          -- rewrite Gi', Hr. reflexivity.
          -- congruence.
          -- congruence.
          -- cbn [strip_bom app]. rewrite Eb. cbn [utf8_encode_all flat_map]. now rewrite !app_nil_r.
  Qed.

  Lemma ginv_split d acc enc cs k :
    ginv {| dec_ := d; started := true; remainder := [] |} (acc ++ enc) cs ->
    ginv {| dec_ := d; started := true; remainder := skipn k enc |} (acc ++ firstn k enc) cs.
  Proof.
    intros [Gs Gi Gu Gw Gb Gy Go Gst Ge]. cbn [dec_ started remainder] in *.
    constructor; cbn [dec_ started remainder]; auto; try discriminate.
    rewrite app_nil_r in Go. rewrite <- app_assoc, firstn_skipn. exact Go.
  Qed.

  Lemma emit_loop_inv : forall fuel room written e acc cs,
    ginv e acc cs -> remainder e = [] ->
    forall out e', emit_loop fuel room written e = ROk out e' ->
    exists out2 cs', out = written ++ out2 /\ ginv e' (acc ++ out2) cs' /\
      (0 < fuel -> 0 < room -> out2 = [] ->
       rest (dec_ e') = [] /\ started e' = true /\ remainder e' = []).
  Proof.
    induction fuel as [|f IH]; intros room written e acc cs G Hrem out e' H.
    - cbn [emit_loop] in H. injection H as <- <-. exists [], cs. rewrite !app_nil_r.
      split; [reflexivity|]. split; [exact G|]. intros; lia.
    - cbn [emit_loop] in H. destruct (room =? 0) eqn:Er.
      + injection H as <- <-. apply Nat.eqb_eq in Er. exists [], cs. rewrite !app_nil_r.
        split; [reflexivity|]. split; [exact G|]. intros; lia.
      + apply Nat.eqb_neq in Er.
        pose proof (enc_next_char_inv e acc cs G Hrem) as Hn.
        destruct (enc_next_char e) as [nc st]. destruct nc as [d|err d|c d].
        * destruct Hn as (-> & cs' & G' & Hr). injection H as <- <-. rewrite Hrem.
          exists [], cs'. rewrite !app_nil_r. split; [reflexivity|]. split; [exact G'|].
          intros _ _ _. cbn [dec_ started remainder]. auto.
        * discriminate.
        * destruct Hn as (-> & cs' & G').
          set (enc := utf8_encode c) in *.
          set (emit_len := Nat.min (length enc) room) in *.
          pose proof (utf8_encode_nonempty c) as Hne. fold enc in Hne.
          destruct (room - emit_len =? 0) eqn:Ez.
          -- apply Nat.eqb_eq in Ez. rewrite Ez, emit_loop_room0 in H. injection H as <- <-.
             exists (firstn emit_len enc), cs'. split; [reflexivity|].
             split; [now apply ginv_split|].
             intros _ _ Hnil. exfalso. revert Hnil. apply firstn_nonempty; lia.
          -- apply Nat.eqb_neq in Ez.
             assert (Hel : emit_len = length enc) by lia.
             assert (Hfn : firstn emit_len enc = enc) by (rewrite Hel; apply firstn_all).
             rewrite Hfn, Hrem in H.
             destruct (IH _ _ _ _ _ G' eq_refl _ _ H) as (out3 & cs'' & -> & G'' & _).
             exists (enc ++ out3), cs''. split; [now rewrite app_assoc|].
             split; [now rewrite app_assoc|].
             intros _ _ Hnil. destruct enc; [cbn in Hne; lia|discriminate].
  Qed.

  Lemma enc_read_inv e acc cs n out e' :
    ginv e acc cs -> enc_read e n = ROk out e' ->
    exists cs', ginv e' (acc ++ out) cs' /\
      (0 < n -> out = [] -> rest (dec_ e') = [] /\ started e' = true /\ remainder e' = []).
  Proof.
    intros G. unfold enc_read.
    set (k := Nat.min n (length (remainder e))).
    pose proof (firstn_skipn k (remainder e)) as Hsplit.
    assert (Hk : length (firstn k (remainder e)) = k) by (rewrite firstn_length; lia).
    destruct G as [Gs Gi Gu Gw Gb Gy Go Gst Ge].
    destruct (skipn k (remainder e)) as [|b l] eqn:Hrem.
    - rewrite app_nil_r in Hsplit.
      set (e0 := {| dec_ := dec_ e; started := started e; remainder := [] |}).
      assert (G0 : ginv e0 (acc ++ firstn k (remainder e)) cs).
      { constructor; cbn [dec_ started remainder e0]; auto.
        - rewrite app_nil_r, Hsplit. exact Go.
        - intros Hf. destruct (Gst Hf) as [-> _]. auto. }
      intros H. destruct (emit_loop_inv _ _ _ _ _ _ G0 eq_refl _ _ H) as (out2 & cs' & -> & G' & Heof).
      exists cs'. split; [now rewrite app_assoc|].
      intros Hn Hnil. apply app_eq_nil in Hnil. destruct Hnil as [H1 H2].
      rewrite H1 in Hk. cbn in Hk. apply Heof; [lia|lia|exact H2].
    - intros H. injection H as <- <-.
      assert (Hlen : length (skipn k (remainder e)) = length (remainder e) - k) by apply skipn_length.
      rewrite Hrem in Hlen. cbn [length] in Hlen.
      exists cs. split.
      + constructor; cbn [dec_ started remainder]; auto.
        * rewrite <- app_assoc, Hsplit. exact Go.
        * intros Hf. destruct (Gst Hf) as [_ Hr0]. rewrite Hr0 in Hrem. destruct k; discriminate.
      + intros Hn Hnil. rewrite Hnil in Hk. cbn in Hk. lia.
  Qed.

  Lemma read_seq_inv : forall sizes e acc cs out,
    ginv e acc cs -> read_seq (Recode e) sizes = (out, AtEof) ->
    exists cs', scalars cs' /\ input = encode_as w bg cs' /\ acc ++ out = utf8_encode_all (strip_bom cs').
  Proof.
    induction sizes as [|n sizes IH]; intros e acc cs out G H; cbn [read_seq encoder_read] in H.
    - discriminate.
    - destruct (enc_read e n) as [o e1|err e1] eqn:Er; [|discriminate].
      destruct (enc_read_inv _ _ _ _ _ _ G Er) as (cs' & G' & Heof).
      destruct o as [|b o].
      + destruct n as [|m].
        * destruct (read_seq (Recode e1) sizes) as [more fin] eqn:Es. injection H as <- ->.
          rewrite app_nil_r in G'. exact (IH _ _ _ _ G' Es).
        * injection H as <-.
          destruct (Heof ltac:(lia) eq_refl) as (Hr & Hst & Hrem).
          destruct G' as [Gs Gi Gu Gw Gb Gy Go Gst Ge].
          exists cs'. split; [exact Gs|]. split; [rewrite Gi, Hr, app_nil_r; reflexivity|].
          rewrite Hrem, Hst in Go. rewrite !app_nil_r in *. exact Go.
      + assert (K : forall more fin, read_seq (Recode e1) sizes = (more, fin) -> ((b :: o) ++ more, fin) = (out, AtEof) ->
                    exists cs'0, scalars cs'0 /\ input = encode_as w bg cs'0 /\ acc ++ out = utf8_encode_all (strip_bom cs'0)).
        { intros more fin Es Heq. injection Heq as <- ->.
          destruct (IH _ _ _ _ G' Es) as (cs2 & H1 & H2 & H3). exists cs2. change (b :: o ++ more) with ((b :: o) ++ more). rewrite app_assoc. auto. }
        destruct n; destruct (read_seq (Recode e1) sizes) as [more fin] eqn:Es; exact (K _ _ eq_refl H).
  Qed.
End Converse.

(* Reading to the end without an error means the input was well-formed and
   the output is exactly its text. *)
Theorem reencoded_success_means_wellformed w bg input sizes out :
  bytes_lt input ->
  read_seq (encoder_new input (enc_of w bg)) sizes = (out, AtEof) ->
  exists cs, scalars cs /\ input = encode_as w bg cs /\ out = utf8_encode_all (strip_bom cs).
Proof.
  intros Hb H.
  set (e0 := {| dec_ := {| wide := w; big := bg; rest := input; dpos := 0; ubuf := None |};
                started := false; remainder := [] |}).
  assert (He : encoder_new input (enc_of w bg) = Recode e0) by (unfold encoder_new, enc_of; destruct w, bg; reflexivity).
  rewrite He in H.
  assert (G : ginv w bg input e0 [] []).
  { constructor; cbn [dec_ started remainder e0 rest ubuf wide big]; auto; try discriminate.
    - constructor.
    - unfold encode_as, utf16_encode, utf32_encode. destruct w; reflexivity. }
  destruct (read_seq_inv w bg input sizes e0 [] [] out G H) as (cs & H1 & H2 & H3).
  exists cs. auto.
Qed.

(* non-vacuity of the converse: a lone trail surrogate (DC00) in UTF-16BE is an
   error, whatever the buffer sizes used here *)
Example illformed_example :
  snd (read_seq (encoder_new [0; 97; 220; 0; 0; 98]%N Utf16Big) [1; 4; 4; 4]) = Failed (EInvalid 16 56320 2).
Proof. vm_compute. reflexivity. Qed.
