(* UtfModel.v — src/yaml/encoding.rs: encoding detection, the UTF-16 and
   UTF-32 decoders, the UTF-8 encoder with its remainder buffer, and
   Encoder::from_reader.  Definitions only.

   The decoders read from a BufRead; what matters of it is the byte stream,
   so the source is the list of bytes still unread (a fault-free source; source
   faults are exercised at the API level under C12).  `lead - 0xD800 << 10 |
   trail - 0xDC00` is written with * and +, which is the same number because
   trail - 0xDC00 < 1024. *)
From XtModel Require Import Base Utf8.

Inductive encoding := Utf8 | Utf16Big | Utf32Big | Utf16Little | Utf32Little.

Definition eq0 (b : N) : bool := (b =? 0)%N.

Definition detect2 (a b : N) : encoding :=
  if ((a =? 254) && (b =? 255))%N || eq0 a then Utf16Big
  else if ((a =? 255) && (b =? 254))%N || eq0 b then Utf16Little
  else Utf8.

(* Encoding::detect (encoding.rs:63-81) *)
Definition detect (p : bytes) : encoding :=
  match p with
  | a :: b :: c :: d :: _ =>
      if (eq0 a && eq0 b && (c =? 254) && (d =? 255))%N || (eq0 a && eq0 b && eq0 c) then Utf32Big
      else if ((a =? 255) && (b =? 254) && eq0 c && eq0 d)%N || (eq0 b && eq0 c && eq0 d) then Utf32Little
      else detect2 a b
  | a :: b :: _ => detect2 a b
  | _ => Utf8
  end.

(* ---------- decoders ---------- *)

Inductive encerr :=
| EInvalid (bits : nat) (unit_ : N) (pos : N)   (* EncodingError: InvalidData *)
| EUnexpectedEof.                               (* read_exact ran out: UnexpectedEof *)

Record dstate := {
  wide : bool;          (* false: UTF-16, true: UTF-32 *)
  big : bool;           (* endianness *)
  rest : bytes;         (* unread source bytes *)
  dpos : N;             (* self.pos *)
  ubuf : option N;      (* Utf16Decoder.buf *)
}.

Definition dstate_with (d : dstate) (r : bytes) (p : N) (b : option N) : dstate :=
  {| wide := wide d; big := big d; rest := r; dpos := p; ubuf := b |}.

Definition decode_u16 (bg : bool) (a b : N) : N :=
  if bg then (a * 256 + b)%N else (b * 256 + a)%N.

Definition decode_u32 (bg : bool) (a b c d : N) : N :=
  if bg then (((a * 256 + b) * 256 + c) * 256 + d)%N else (((d * 256 + c) * 256 + b) * 256 + a)%N.

Inductive next_unit := UNone | UErr (e : encerr) | USome (u : N) (d : dstate).

(* Utf16Decoder::next_u16 *)
Definition next_u16 (d : dstate) : next_unit :=
  match rest d with
  | [] => UNone
  | [_] => UErr EUnexpectedEof
  | a :: b :: r => USome (decode_u16 (big d) a b) (dstate_with d r (dpos d + 2)%N (ubuf d))
  end.

Inductive next_char := CNone (d : dstate) | CErr (e : encerr) (d : dstate) | CSome (c : N) (d : dstate).

(* impl Iterator for Utf16Decoder (encoding.rs:294-340) *)
Definition utf16_next (d : dstate) : next_char :=
  let pos0 := dpos d in
  let lead_r :=
    match ubuf d with
    | Some u => USome u (dstate_with d (rest d) (dpos d) None)
    | None => next_u16 d
    end in
  match lead_r with
  | UNone => CNone d
  | UErr e => CErr e d
  | USome lead d1 =>
      if ((lead <? 55296) || (57344 <=? lead))%N then CSome lead d1
      else if (56320 <=? lead)%N then CErr (EInvalid 16 lead pos0) d1
      else
        let pos1 := dpos d1 in
        match next_u16 d1 with
        | UNone => CErr EUnexpectedEof d1
        | UErr e => CErr e d1
        | USome trail d2 =>
            if negb ((56320 <=? trail) && (trail <=? 57343))%N then
              CErr (EInvalid 16 trail pos1) (dstate_with d2 (rest d2) (dpos d2) (Some trail))
            else CSome (65536 + ((lead - 55296) * 1024 + (trail - 56320)))%N d2
        end
  end.

(* impl Iterator for Utf32Decoder (encoding.rs:372-391) *)
Definition utf32_next (d : dstate) : next_char :=
  match rest d with
  | [] => CNone d
  | a :: b :: c :: e :: r =>
      let unit_ := decode_u32 (big d) a b c e in
      let d' := dstate_with d r (dpos d + 4)%N (ubuf d) in
      if is_scalar unit_ then CSome unit_ d' else CErr (EInvalid 32 unit_ (dpos d)) d'
  | _ => CErr EUnexpectedEof d
  end.

Definition dec_next (d : dstate) : next_char :=
  if wide d then utf32_next d else utf16_next d.

(* ---------- Utf8Encoder (encoding.rs:162-251) ---------- *)

Record estate := {
  dec_ : dstate;
  started : bool;
  remainder : bytes;      (* the unread part of the ArrayBuffer<4> *)
}.

(* next_char: skip one leading U+FEFF *)
Definition enc_next_char (e : estate) : next_char * bool :=
  if started e then (dec_next (dec_ e), true)
  else
    match dec_next (dec_ e) with
    | CSome c d => if (c =? 65279)%N then (dec_next d, true) else (CSome c d, true)
    | other => (other, true)
    end.

Inductive rres := ROk (out : bytes) (e : estate) | RErr (err : encerr) (e : estate).

(* The two emit loops of read(), with `room` = the unfilled part of buf.  Each
   iteration consumes at least one byte of room; `fuel` bounds the iterations. *)
Fixpoint emit_loop (fuel : nat) (room : nat) (written : bytes) (e : estate) : rres :=
  match fuel with
  | O => ROk written e
  | S f =>
      if room =? 0 then ROk written e
      else
        let '(nc, st) := enc_next_char e in
        match nc with
        | CNone d => ROk written {| dec_ := d; started := st; remainder := remainder e |}
        | CErr err d => RErr err {| dec_ := d; started := st; remainder := remainder e |}
        | CSome c d =>
            let enc := utf8_encode c in
            let emit_len := Nat.min (length enc) room in
            let e' := {| dec_ := d; started := st;
                         remainder := if room - emit_len =? 0 then skipn emit_len enc else remainder e |} in
            emit_loop f (room - emit_len) (written ++ firstn emit_len enc) e'
        end
  end.

(* impl Read for Utf8Encoder: read(buf) with |buf| = n. *)
Definition enc_read (e : estate) (n : nat) : rres :=
  let k := Nat.min n (length (remainder e)) in
  let out0 := firstn k (remainder e) in
  let rem' := skipn k (remainder e) in
  let e0 := {| dec_ := dec_ e; started := started e; remainder := rem' |} in
  match rem' with
  | _ :: _ => ROk out0 e0
  | [] => emit_loop (S n) (n - k) out0 e0
  end.

(* ---------- Encoder ---------- *)

Inductive encoder := Passthrough (r : bytes) | Recode (e : estate).

Definition encoder_new (input : bytes) (enc : encoding) : encoder :=
  let mk w b := Recode {| dec_ := {| wide := w; big := b; rest := input; dpos := 0; ubuf := None |};
                          started := false; remainder := [] |} in
  match enc with
  | Utf8 => Passthrough input
  | Utf16Big => mk false true
  | Utf32Big => mk true true
  | Utf16Little => mk false false
  | Utf32Little => mk true false
  end.

(* Encoder::from_reader: detect on up to 4 leading bytes, which are then
   chained back in front of the reader. *)
Definition encoder_from_reader (input : bytes) : encoder :=
  encoder_new input (detect (firstn 4 input)).

Inductive eres := EROk (out : bytes) (e : encoder) | ERErr (err : encerr).

Definition encoder_read (e : encoder) (n : nat) : eres :=
  match e with
  | Passthrough r => EROk (firstn n r) (Passthrough (skipn n r))
  | Recode st =>
      match enc_read st n with
      | ROk out st' => EROk out (Recode st')
      | RErr err _ => ERErr err
      end
  end.

(* Read with the given buffer sizes, one after another; stop at the first
   error, or at the first read of a non-empty buffer that returns nothing.
   Result: the bytes delivered, and how the reading ended. *)
Inductive rend := Exhausted (* ran out of buffer sizes *) | AtEof | Failed (err : encerr).

Fixpoint read_seq (e : encoder) (sizes : list nat) : bytes * rend :=
  match sizes with
  | [] => ([], Exhausted)
  | n :: sizes' =>
      match encoder_read e n with
      | ERErr err => ([], Failed err)
      | EROk out e' =>
          match out, n with
          | [], S _ => ([], AtEof)
          | _, _ => let '(more, fin) := read_seq e' sizes' in (out ++ more, fin)
          end
      end
  end.

(* ---------- reference encoders (the specification side) ---------- *)

Definition enc_u16 (bg : bool) (u : N) : bytes :=
  if bg then [u / 256; u mod 256]%N else [u mod 256; u / 256]%N.

Definition utf16_units (c : N) : list N :=
  if (c <? 65536)%N then [c]
  else [55296 + (c - 65536) / 1024; 56320 + (c - 65536) mod 1024]%N.

Definition utf16_encode (bg : bool) (cs : list N) : bytes :=
  flat_map (fun c => flat_map (enc_u16 bg) (utf16_units c)) cs.

Definition enc_u32 (bg : bool) (u : N) : bytes :=
  let b0 := (u / 16777216)%N in
  let b1 := ((u / 65536) mod 256)%N in
  let b2 := ((u / 256) mod 256)%N in
  let b3 := (u mod 256)%N in
  if bg then [b0; b1; b2; b3] else [b3; b2; b1; b0].

Definition utf32_encode (bg : bool) (cs : list N) : bytes := flat_map (enc_u32 bg) cs.
