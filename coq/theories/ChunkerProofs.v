(* ChunkerProofs.v — for every event stream that renders a well-formed list of
   document spans, the chunker yields exactly one chunk per document, in order,
   each the bytes between the previous document's end and its own, with the
   right kind; nothing is dropped, duplicated, merged or split; it never
   panics. *)
From XtModel Require Import Base Utf8 ChunkerModel.

Definition set_kind (st : cstate) (k : option bool) : cstate :=
  {| cs_start := cs_start st; cs_last := cs_last st; cs_kind := k |}.

(* content events after the kind is fixed change nothing *)
Lemma items_only_content data body : forall rest st b,
  only_content body -> cs_kind st = Some b ->
  chunk_items data (body ++ rest) st = chunk_items data rest st.
Proof.
  induction 1 as [|evs _ IH|evs _ IH|evs _ IH]; intros Hk; cbn [app chunk_items]; try reflexivity.
  - now apply IH.
  - rewrite Hk. replace {| cs_start := cs_start st; cs_last := cs_last st; cs_kind := Some b |} with st
      by (destruct st; cbn in *; now subst). now apply IH.
  - rewrite Hk. replace {| cs_start := cs_start st; cs_last := cs_last st; cs_kind := Some b |} with st
      by (destruct st; cbn in *; now subst). now apply IH.
Qed.

(* the content events of a document fix its kind *)
Lemma chunks_content data coll body : forall rest st,
  content_of coll body -> cs_kind st = None ->
  exists k, chunk_items data (body ++ rest) st = chunk_items data rest (set_kind st k) /\
            match k with Some true => true | _ => false end = coll.
Proof.
  induction 1 as [|b evs _ IH|evs Ho|evs Ho]; intros Hk; cbn [app chunk_items].
  - exists None. split; [|reflexivity]. unfold set_kind. rewrite <- Hk. now destruct st.
  - now apply IH.
  - rewrite Hk. exists (Some false). split; [|reflexivity].
    now apply (items_only_content data evs rest _ false).
  - rewrite Hk. exists (Some true). split; [|reflexivity].
    now apply (items_only_content data evs rest _ true).
Qed.

(* The chunker, started after [prev] documents have been cut (with the last one
   still held back), yields the held-back document and then the slices. *)
Lemma chunks_renders data ds evs : renders ds evs ->
  forall from last,
    spans_wf data from ds ->
    chunk_items data evs {| cs_start := from; cs_last := last; cs_kind := None |} =
      match last with Some d => [IDoc d] | None => [] end ++ map IDoc (slices data from ds).
Proof.
  induction 1 as [|ds evs _ IH|d ds body evs Hc _ IH]; intros from last Hwf.
  - cbn [chunk_items cs_last slices map]. now rewrite app_nil_r.
  - cbn [chunk_items]. now apply IH.
  - cbn [spans_wf] in Hwf. destruct Hwf as (H1 & H2 & H3 & H4 & Hrest).
    cbn [chunk_items cs_last cs_start].
    assert (G : chunk_items data (body ++ YDocEnd (d_end d) (d_pulled d) :: evs)
                  {| cs_start := from; cs_last := None; cs_kind := None |} =
                map IDoc (slices data from (d :: ds))).
    { destruct (chunks_content data (d_coll d) body (YDocEnd (d_end d) (d_pulled d) :: evs)
                  {| cs_start := from; cs_last := None; cs_kind := None |} Hc eq_refl) as (k & -> & Hk).
      unfold set_kind. cbn [chunk_items cs_start cs_last cs_kind].
      destruct (d_end d <? from) eqn:E1; [apply Nat.ltb_lt in E1; lia|].
      destruct (d_pulled d - from <? d_end d - from) eqn:E2; [apply Nat.ltb_lt in E2; lia|].
      rewrite H4, Hk.
      rewrite (IH (d_end d) (Some {| c_content := firstn (d_end d - from) (skipn from data); c_coll := d_coll d |}) Hrest).
      reflexivity. }
    destruct last as [l|]; cbn [app]; now rewrite G.
Qed.

(* One chunk per document, in order, each exactly the bytes between the
   previous document's end and its own end, with its kind; no panic. *)
Theorem chunker_exact data ds evs :
  renders ds evs -> spans_wf data 0 ds ->
  chunker data evs = map IDoc (slices data 0 ds).
Proof. intros Hr Hwf. unfold chunker, cs0. now rewrite (chunks_renders data ds evs Hr 0 None Hwf). Qed.

(* No byte of the stream is lost or duplicated between documents: the chunks,
   concatenated, are the stream up to the last document's end. *)
Fixpoint final_end (from : nat) (ds : list docspan) : nat :=
  match ds with [] => from | d :: ds' => final_end (d_end d) ds' end.

Lemma final_end_mono data : forall ds from, spans_wf data from ds -> from <= final_end from ds.
Proof.
  induction ds as [|d ds IH]; intros from Hwf; cbn [final_end]; [lia|].
  cbn [spans_wf] in Hwf. destruct Hwf as (H1 & _ & _ & _ & Hrest). specialize (IH _ Hrest). lia.
Qed.

Lemma slices_concat data : forall ds from,
  spans_wf data from ds ->
  flat_map c_content (slices data from ds) = firstn (final_end from ds - from) (skipn from data).
Proof.
  induction ds as [|d ds IH]; intros from Hwf; cbn [slices flat_map final_end].
  - now rewrite Nat.sub_diag.
  - pose proof Hwf as Hwf0. cbn [spans_wf] in Hwf. destruct Hwf as (H1 & H2 & H3 & H4 & Hrest).
    rewrite (IH (d_end d) Hrest). cbn [c_content].
    pose proof (final_end_mono data ds (d_end d) Hrest) as Hm.
    replace (skipn (d_end d) data) with (skipn (d_end d - from) (skipn from data))
      by (rewrite skipn_skipn'; f_equal; lia).
    rewrite firstn_skipn_app. f_equal. lia.
Qed.

Theorem chunks_cover_the_stream data ds evs :
  renders ds evs -> spans_wf data 0 ds ->
  flat_map (fun i => match i with IDoc c => c_content c | _ => [] end) (chunker data evs) =
    firstn (final_end 0 ds) data.
Proof.
  intros Hr Hwf. rewrite (chunker_exact data ds evs Hr Hwf).
  assert (E : forall l, flat_map (fun i => match i with IDoc c => c_content c | _ => [] end) (map IDoc l) =
                        flat_map c_content l).
  { induction l as [|c l IHl]; cbn [map flat_map]; [reflexivity|]. now rewrite IHl. }
  rewrite E, (slices_concat data ds 0 Hwf). now rewrite Nat.sub_0_r.
Qed.

(* never a panic, as many documents out as in *)
Theorem chunker_total data ds evs :
  renders ds evs -> spans_wf data 0 ds ->
  length (chunker data evs) = length ds /\ forall i, In i (chunker data evs) -> exists c, i = IDoc c.
Proof.
  intros Hr Hwf. rewrite (chunker_exact data ds evs Hr Hwf). split.
  - rewrite map_length. clear. generalize 0. induction ds; intros; cbn; [reflexivity|]. now rewrite IHds.
  - intros i Hi. apply in_map_iff in Hi as (c & <- & _). now exists c.
Qed.

Example chunker_nonvacuous :
  let data := [45; 45; 45; 10; 97; 58; 32; 49; 10; 45; 45; 45; 10; 50; 10]%N in   (* "---\na: 1\n---\n2\n" *)
  let ds := [{| d_end := 9; d_pulled := 15; d_coll := true |}; {| d_end := 15; d_pulled := 15; d_coll := false |}] in
  let evs := [YOther; YDocStart; YCollStart; YScalar; YScalar; YOther; YDocEnd 9 15; YDocStart; YScalar; YDocEnd 15 15; YStreamEnd] in
  renders ds evs /\ spans_wf data 0 ds /\
  chunker data evs = [IDoc {| c_content := firstn 9 data; c_coll := true |}; IDoc {| c_content := skipn 9 data; c_coll := false |}].
Proof.
  cbn zeta. split; [|split].
  - apply RendersOther. apply (RendersDoc {| d_end := 9; d_pulled := 15; d_coll := true |} _ [YCollStart; YScalar; YScalar; YOther]).
    + apply ContentColl. repeat constructor.
    + apply (RendersDoc {| d_end := 15; d_pulled := 15; d_coll := false |} [] [YScalar]).
      * apply ContentScalar. constructor.
      * constructor.
  - cbn. repeat split; try lia; vm_compute; reflexivity.
  - vm_compute. reflexivity.
Qed.

(* ---------- the guard of the in-memory path agrees with the chunker ----------
   The in-memory UTF-8 path prints nothing exactly when the reader path (the
   chunker) yields nothing: if the parser reaches STREAM-END without a
   DOCUMENT-START or an error - and, as libyaml guarantees, without a
   DOCUMENT-END before any DOCUMENT-START - the chunker yields no item at all;
   and when the guard answers true, the chunker's first item cannot come
   before that DOCUMENT-START or error either. *)
Fixpoint no_end_before_start (evs : list yev) : Prop :=
  match evs with
  | [] => True
  | YDocStart :: _ | YStreamEnd :: _ | YErr :: _ => True
  | YDocEnd _ _ :: _ => False
  | _ :: r => no_end_before_start r
  end.

Lemma no_document_no_chunks_gen data : forall evs st,
  cs_last st = None -> has_document evs = false -> no_end_before_start evs -> chunk_items data evs st = [].
Proof.
  induction evs as [|e evs IH]; intros st Hl Hh Hn; [reflexivity|].
  destruct e; cbn [has_document no_end_before_start] in *; try discriminate; try contradiction; cbn [chunk_items].
  - apply IH; [exact Hl|exact Hh|exact Hn].
  - apply IH; [exact Hl|exact Hh|exact Hn].
  - now rewrite Hl.
  - apply IH; [exact Hl|exact Hh|exact Hn].
Qed.

Theorem no_document_no_chunks data evs :
  has_document evs = false -> no_end_before_start evs -> chunker data evs = [].
Proof. intros H1 H2. unfold chunker. now apply no_document_no_chunks_gen. Qed.

(* conversely: when the chunker yields anything, the guard answers true *)
Theorem chunks_imply_document data evs :
  no_end_before_start evs -> chunker data evs <> [] -> has_document evs = true.
Proof.
  intros Hn Hc. destruct (has_document evs) eqn:E; [reflexivity|].
  exfalso. apply Hc. now apply no_document_no_chunks.
Qed.
