(* StreamModel.v — the interaction over time of a reader-mode translation: the
   per-document loops of json.rs:61-71, msgpack.rs:82-89 and yaml.rs:83-88 pull
   input through a buffered reader and hand each document's translation to the
   writer as soon as the parser has what it needs for it.

   A run is a trace of events: TR d = the source is asked for more data when d
   bytes have been delivered; TW k = the complete translation of document k
   (0-based) is handed to the writer.  [need k] is the number of delivered
   bytes the parser must have before document k can be completed and emitted
   (third-party: end of the document plus the parser's look-ahead; for YAML the
   point at which libyaml reports the start of document k+1, since the chunker
   holds a document back by one).  Definitions only. *)
From XtModel Require Import Base.

Inductive tev := TR (delivered : nat) | TW (k : nat).

Section Stream.
  Variable need : nat -> nat.
  Variable ndocs : nat.
  Variable total : nat.          (* length of the stream *)
  Variable sched : nat -> nat.   (* a read issued at offset d returns at most S (sched d) bytes *)

  Definition packet (d : nat) : nat := Nat.min (S (sched d)) (total - d).

  (* The loop.  A source read is issued only when everything delivered so far
     has been consumed and the parser needs more (that is what reading through a
     BufReader / libyaml's own buffer amounts to); a document is emitted the
     moment its input is there. *)
  Fixpoint pump (fuel delivered k : nat) : list tev :=
    match fuel with
    | O => []
    | S f =>
        if k <? ndocs then
          if need k <=? delivered then TW k :: pump f delivered (S k)
          else if delivered <? total then TR delivered :: pump f (delivered + packet delivered) k
          else [TR delivered]                       (* the source is at EOF: this read returns 0 and the loop ends (in an error) *)
        else if delivered <? total then TR delivered :: pump f (delivered + packet delivered) k
        else [TR delivered]                         (* the final read that finds EOF *)
    end.

  Definition run : list tev := pump (S (ndocs + total)) 0 0.

  (* document j has been handed to the writer somewhere in [tr] *)
  Definition written (j : nat) (tr : list tev) : Prop := In (TW j) tr.

  (* the lag property of a trace: whenever the source is asked for more, every
     document whose input was already delivered has been written *)
  Fixpoint prompt (before tr : list tev) : Prop :=
    match tr with
    | [] => True
    | TR d :: tr' => (forall j, j < ndocs -> need j <= d -> written j before) /\ prompt (before ++ [TR d]) tr'
    | TW k :: tr' => prompt (before ++ [TW k]) tr'
    end.
End Stream.
