(* JsonMsgpackProofs.v — the round-trip clause of C06 for one pair of formats,
   entirely on the codec models: MessagePack -> JSON -> MessagePack through xt
   gives the bytes MessagePack -> MessagePack gives.

   A MessagePack value that JSON can carry (no binary data, no 32-bit floats,
   string keys; floats under the contract on ryu's spelling) is written as JSON
   text by the JSON writer model; the JSON reader model reads that text back to
   events that differ from the MessagePack reader's events only in the integer
   width they report, which rmp's encoder ignores (it always writes the
   shortest form).  So the MessagePack writer produces the original canonical
   encoding again. *)
From XtModel Require Import Base Utf8 MsgpackModel MsgpackCodecProofs JsonModel JsonProofs JsonWriteModel JsonWriteProofs.
Require Import ZifyBool ZifyNat ZifyN.

(* [carries v j]: j is the JSON value xt writes for the MessagePack value v *)
Inductive carries : mval -> jval -> Prop :=
| c_nil : carries VNil JNull
| c_bool b : carries (VBool b) (JBool b)
| c_uint n : carries (VUInt n) (JUInt n)
| c_neg z : carries (VNeg z) (JNegInt z)
| c_f64 b : carries (VF64 b) (JFloat b)
| c_str s : carries (VStr s) (JStr s)
| c_arr vs js : Forall2 carries vs js -> carries (VArr vs) (JArr js)
| c_map kvs kjs :
    Forall2 (fun (kv : mval * mval) (kj : bytes * jval) => fst kv = VStr (fst kj) /\ carries (snd kv) (snd kj)) kvs kjs ->
    carries (VMap kvs) (JObj kjs).

Lemma Forall2_len {A B} (R : A -> B -> Prop) l l' : Forall2 R l l' -> length l = length l'.
Proof. induction 1; cbn; congruence. Qed.

Lemma enc_evs_cons e es : enc_evs (e :: es) = enc_ev e ++ enc_evs es.
Proof. reflexivity. Qed.

Lemma enc_evs_elems js : enc_evs (flat_map jevs js) = flat_map (fun j => enc_evs (jevs j)) js.
Proof. induction js as [|j js IH]; [reflexivity|]. cbn [flat_map]. now rewrite enc_evs_app, IH. Qed.

Lemma enc_evs_members (kjs : list (bytes * jval)) :
  enc_evs (flat_map (fun kv : bytes * jval => let (k, x) := kv in EStr k :: jevs x) kjs) =
  flat_map (fun kj : bytes * jval => enc_ev (EStr (fst kj)) ++ enc_evs (jevs (snd kj))) kjs.
Proof.
  induction kjs as [|[k j] kjs IH]; [reflexivity|]. cbn [flat_map fst snd].
  change (EStr k :: jevs j) with ([EStr k] ++ jevs j). rewrite !enc_evs_app, IH.
  unfold enc_evs at 1. cbn [flat_map]. now rewrite app_nil_r.
Qed.

Lemma enc_evs_nil_end e : enc_ev e = [] -> forall es, enc_evs (es ++ [e]) = enc_evs es.
Proof. intros H es. rewrite enc_evs_app. unfold enc_evs at 2. cbn [flat_map]. now rewrite H, !app_nil_r. Qed.

Lemma enc_evs_jarr js :
  enc_evs (jevs (JArr js)) = enc_array_len (lenL js) ++ flat_map (fun j => enc_evs (jevs j)) js.
Proof.
  cbn [jevs]. rewrite enc_evs_cons, (enc_evs_nil_end ESeqEnd eq_refl), enc_evs_elems. reflexivity.
Qed.

Lemma enc_evs_jobj kjs :
  enc_evs (jevs (JObj kjs)) =
    enc_map_len (lenL kjs) ++ flat_map (fun kj : bytes * jval => enc_ev (EStr (fst kj)) ++ enc_evs (jevs (snd kj))) kjs.
Proof.
  cbn [jevs]. rewrite enc_evs_cons, (enc_evs_nil_end EMapEnd eq_refl), enc_evs_members. reflexivity.
Qed.

Lemma enc_val_single' e v : evs v = [e] -> enc_val v = enc_ev e.
Proof. unfold enc_val, enc_evs. intros ->. cbn [flat_map]. now rewrite app_nil_r. Qed.

(* the MessagePack writer cannot tell the JSON reader's events from the MessagePack reader's *)
Theorem same_encoding : forall v j, carries v j -> enc_evs (jevs j) = enc_val v.
Proof.
  induction v as [ |b|n|z|b|b|s|s|vs IHvs|kvs IHkvs] using mval_ind2; intros j H; inversion H; subst.
  - reflexivity.
  - reflexivity.
  - rewrite (enc_val_single' (EUInt (uwidth n) n) (VUInt n) eq_refl). unfold enc_evs. cbn [jevs flat_map enc_ev]. now rewrite app_nil_r.
  - rewrite (enc_val_single' (ESInt (swidth z) z) (VNeg z) eq_refl). unfold enc_evs. cbn [jevs flat_map enc_ev]. now rewrite app_nil_r.
  - reflexivity.
  - reflexivity.
  - rewrite enc_evs_jarr, enc_val_arr.
    match goal with Hf : Forall2 carries vs ?js |- _ => rename Hf into HF end.
    assert (Hl : lenL js = lenN vs) by (unfold lenL, lenN; now rewrite (Forall2_len _ _ _ HF)).
    rewrite Hl. f_equal. clear Hl H. induction HF as [|x y xs ys Hxy HF IH]; [reflexivity|].
    inversion IHvs as [|? ? Px Pxs]; subst. cbn [flat_map]. rewrite (Px y Hxy). now rewrite (IH Pxs).
  - rewrite enc_evs_jobj, enc_val_map.
    match goal with Hf : Forall2 _ kvs ?kjs |- _ => rename Hf into HF end.
    assert (Hl : lenL kjs = lenN kvs) by (unfold lenL, lenN; now rewrite (Forall2_len _ _ _ HF)).
    rewrite Hl. f_equal. clear Hl H. induction HF as [|[k x] [k' y] xs ys [Hk Hxy] HF IH]; [reflexivity|].
    inversion IHkvs as [|? ? [Pk Px] Pxs]; subst. cbn [fst snd] in *. subst k.
    cbn [flat_map flatten fst snd app]. rewrite (Px y Hxy), (IH Pxs).
    rewrite (enc_val_single' (EStr k') (VStr k') eq_refl). now rewrite <- !app_assoc.
Qed.

(* MessagePack -> JSON -> MessagePack: the JSON text xt writes for the values,
   read back by either JSON loop, makes the MessagePack writer produce the
   canonical encoding of the original values - the bytes MessagePack ->
   MessagePack produces (MsgpackCodecProofs.reader_identity). *)
Theorem msgpack_json_msgpack :
  forall (fmt_f64 : N -> bytes) (float_ok : N -> bool),
    (forall b, float_ok b = true -> forall f depth tail, val_end tail ->
       parse_value (S f) depth (fmt_f64 b ++ tail) = ([EF64 b], JOk tail)) ->
    (forall b, float_ok b = true ->
       exists c r, fmt_f64 b = c :: r /\ is_ws c = false /\ (c =? 93)%N = false /\ (c =? 125)%N = false /\ (c =? 44)%N = false) ->
    forall (vs : list mval) (js : list jval), Forall2 carries vs js -> Forall (writable float_ok) js ->
      jm_output (json_reader (jwrite_docs fmt_f64 js)) = flat_map enc_val vs /\
      jm_output (json_slice (jwrite_docs fmt_f64 js)) = flat_map enc_val vs.
Proof.
  intros fmt ok H1 H2 vs js HC HW.
  rewrite (json_reader_reads_docs fmt ok H1 H2 js HW), (json_slice_reads_docs fmt ok H1 H2 js HW).
  unfold jm_output. cbn [fst].
  assert (E : flat_map enc_evs (map jevs js) = flat_map enc_val vs).
  { induction HC as [|v j vs' js' Hvj HC IH]; [reflexivity|]. inversion HW; subst.
    cbn [map flat_map]. rewrite (same_encoding v j Hvj). now rewrite IH. }
  now rewrite E.
Qed.

Example carries_nonvacuous :
  carries (VMap [(VStr [97], VArr [VUInt 300; VNeg (-5); VNil])]%N) (JObj [([97], JArr [JUInt 300; JNegInt (-5); JNull])]%N).
Proof. repeat (constructor; cbn [fst snd]; try split; try reflexivity). Qed.
