(* C18 — Nesting limits are clean, and the same for slice and reader input.
   Pinned statements only; proofs are in theories/MsgpackProofs.v. *)
From XtModel Require Import Base MsgpackModel MsgpackProofs.

(* The MessagePack size calculator (which decides the slice-mode verdict) never
   indexes out of range and never underflows its depth budget, on any bytes and
   any depth limit. *)
Theorem C18_size_no_panic :
  forall (inp : bytes) (dl : nat), next_value_size inp dl <> SzPanic.
Proof. exact next_value_size_no_panic. Qed.

(* An accepted size never exceeds the input, and is positive on non-empty
   input: split_at cannot panic and the document loop makes progress. *)
Theorem C18_size_in_bounds :
  forall (inp : bytes) (dl : nat) (n : N),
    next_value_size inp dl = SzOk n -> (n <= len_n inp)%N /\ (inp <> [] -> 1 <= n)%N.
Proof. exact next_value_size_in_bounds. Qed.

(* It terminates on every input (the fuel 2*len+2 is never exhausted): no hang
   and recursion bounded by the input length, whatever lengths the input
   declares. *)
Theorem C18_size_terminates :
  forall (inp : bytes) (dl : nat), next_value_size inp dl <> SzOutOfFuel.
Proof. exact next_value_size_terminates. Qed.
