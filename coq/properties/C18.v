(* C18 — Nesting limits are clean, and the same for slice and reader input.
   Pinned statements only; proofs are in theories/MsgpackProofs.v. *)
From XtModel Require Import Base MsgpackModel MsgpackProofs.

(* The MessagePack size calculator (which decides the slice-mode verdict) never
   indexes out of range and never underflows its depth budget, on any bytes and
   any depth limit. *)
Theorem C18_size_no_panic :
  forall (inp : bytes) (dl : nat), next_value_size inp dl <> SzPanic.
Proof. exact next_value_size_no_panic. Qed.

(* An accepted size never exceeds the input, and is positive on non-empty
   input: split_at cannot panic and the document loop makes progress. *)
Theorem C18_size_in_bounds :
  forall (inp : bytes) (dl : nat) (n : N),
    next_value_size inp dl = SzOk n -> (n <= len_n inp)%N /\ (inp <> [] -> 1 <= n)%N.
Proof. exact next_value_size_in_bounds. Qed.

(* It terminates on every input (the fuel 2*len+2 is never exhausted): no hang
   and recursion bounded by the input length, whatever lengths the input
   declares. *)
Theorem C18_size_terminates :
  forall (inp : bytes) (dl : nat), next_value_size inp dl <> SzOutOfFuel.
Proof. exact next_value_size_terminates. Qed.

(* The verdict is the same for slice and reader input at EVERY depth and for
   every nesting shape - for every byte string at all. *)
From XtModel Require Import MsgpackAgreeProofs.

Theorem C18_same_verdict_slice_reader :
  forall (utf8_valid : bytes -> bool) (inp : bytes),
    mm_ok (transcode_slice utf8_valid inp) = mm_ok (transcode_reader utf8_valid inp).
Proof. intros u inp. exact (proj1 (proj2 (slice_reader_agree u inp))). Qed.

(* Neither document loop panics or exhausts its fuel, whatever the input declares. *)
Theorem C18_loops_total :
  forall (utf8_valid : bytes -> bool) (inp : bytes),
    snd (transcode_slice utf8_valid inp) <> MPanic /\ snd (transcode_slice utf8_valid inp) <> MOutOfFuel /\
    snd (transcode_reader utf8_valid inp) <> MOutOfFuel.
Proof. exact loops_total. Qed.

(* The limit itself: 1023 collections around a scalar translate, 1024 do not,
   in both modes, for arrays, for maps nested in value position and for maps
   nested in key position. *)
Definition nest_arrays (n : nat) : bytes := repeat 145%N n ++ [192%N].
Definition nest_maps (n : nat) : bytes := concat (repeat [129; 161; 107]%N n) ++ [192%N].
Definition nest_keys (n : nat) : bytes := repeat 129%N n ++ [192%N] ++ repeat 1%N n.

Example C18_limit_is_1023 :
  let ok inp := (mm_ok (transcode_slice (fun _ => true) inp), mm_ok (transcode_reader (fun _ => true) inp)) in
  ok (nest_arrays 1023) = (true, true) /\ ok (nest_arrays 1024) = (false, false) /\
  ok (nest_maps 1023) = (true, true) /\ ok (nest_maps 1024) = (false, false) /\
  ok (nest_keys 1023) = (true, true) /\ ok (nest_keys 1024) = (false, false).
Proof. vm_compute. repeat split. Qed.

(* The limit for EVERY value, not three shapes: whatever the value - arrays,
   maps, mixtures, collections in key position, any lengths - both document
   loops read its encoding to the end if and only if fewer than 1024
   collections surround its innermost value; a value that is one level too deep
   (or more) is refused with the depth-limit error; so the verdict at a depth
   is the same for every shape. *)
From XtModel Require Import MsgpackCodecProofs MsgpackDecProofs MsgpackDepthProofs.

Theorem C18_msgpack_limit_exact :
  forall (utf8_valid : bytes -> bool) (v : mval),
    wfb utf8_valid v = true ->
    (mm_ok (transcode_reader utf8_valid (enc_val v)) = true <-> depth v < DEPTH_LIMIT) /\
    (mm_ok (transcode_slice utf8_valid (enc_val v)) = true <-> depth v < DEPTH_LIMIT).
Proof. exact msgpack_limit_exact. Qed.

Theorem C18_too_deep_is_a_depth_error :
  forall (utf8_valid : bytes -> bool) (ext_ok : bool) (v : mval),
    wfb utf8_valid v = true -> forall (d : nat) (tail : bytes), 1 <= d -> d <= depth v ->
      snd (D utf8_valid ext_ok (enc_val v ++ tail) d) = DErr DDepth.
Proof. exact decode_too_deep. Qed.

Theorem C18_verdict_depends_on_depth_only :
  forall (utf8_valid : bytes -> bool) (v w : mval),
    wfb utf8_valid v = true -> wfb utf8_valid w = true -> depth v = depth w ->
    mm_ok (transcode_reader utf8_valid (enc_val v)) = mm_ok (transcode_reader utf8_valid (enc_val w)) /\
    mm_ok (transcode_slice utf8_valid (enc_val v)) = mm_ok (transcode_slice utf8_valid (enc_val w)).
Proof. exact verdict_depends_on_depth_only. Qed.

(* JSON, on the reader and writer models of serde_json as xt drives them: the
   text xt writes for a value (any value the writer can produce: arrays, objects
   and every mixture) is read back iff fewer than 128 collections surround its
   innermost value; a value that is too deep is refused with the recursion-limit
   error; so the verdict at a depth does not depend on the shape.  (Slice and
   reader agree on every byte string: C02_json_agree_all.  Same premises on the
   spelling of floats as C01_json_reads_what_was_written.) *)
From XtModel Require Import JsonModel JsonWriteModel JsonWriteProofs JsonDepthProofs.

Theorem C18_json_limit_exact :
  forall (fmt_f64 : N -> bytes) (float_ok : N -> bool),
    (forall b, float_ok b = true -> forall f depth tail, val_end tail ->
       parse_value (S f) depth (fmt_f64 b ++ tail) = ([EF64 b], JOk tail)) ->
    (forall b, float_ok b = true ->
       exists c r, fmt_f64 b = c :: r /\ is_ws c = false /\ (c =? 93)%N = false /\ (c =? 125)%N = false /\ (c =? 44)%N = false) ->
    forall (v : jval) (tail : bytes),
      jwf float_ok v = true -> val_end tail ->
      (jok (snd (json_value (jwrite fmt_f64 v ++ tail))) = true <-> jdepth v < JSON_DEPTH).
Proof. exact json_value_limit_exact. Qed.

Theorem C18_json_too_deep_is_a_depth_error :
  forall (fmt_f64 : N -> bytes) (float_ok : N -> bool),
    (forall b, float_ok b = true -> forall f depth tail, val_end tail ->
       parse_value (S f) depth (fmt_f64 b ++ tail) = ([EF64 b], JOk tail)) ->
    (forall b, float_ok b = true ->
       exists c r, fmt_f64 b = c :: r /\ is_ws c = false /\ (c =? 93)%N = false /\ (c =? 125)%N = false /\ (c =? 44)%N = false) ->
    forall (v : jval), jwf float_ok v = true ->
      forall (f depth : nat) (tail : bytes), need v <= f -> 1 <= depth -> depth <= jdepth v -> val_end tail ->
        snd (parse_value f depth (jwrite fmt_f64 v ++ tail)) = JErr JDepth.
Proof. exact write_too_deep. Qed.

Theorem C18_json_verdict_depends_on_depth_only :
  forall (fmt_f64 : N -> bytes) (float_ok : N -> bool),
    (forall b, float_ok b = true -> forall f depth tail, val_end tail ->
       parse_value (S f) depth (fmt_f64 b ++ tail) = ([EF64 b], JOk tail)) ->
    (forall b, float_ok b = true ->
       exists c r, fmt_f64 b = c :: r /\ is_ws c = false /\ (c =? 93)%N = false /\ (c =? 125)%N = false /\ (c =? 44)%N = false) ->
    forall (v w : jval) (tail : bytes),
      jwf float_ok v = true -> jwf float_ok w = true -> val_end tail -> jdepth v = jdepth w ->
      jok (snd (json_value (jwrite fmt_f64 v ++ tail))) = jok (snd (json_value (jwrite fmt_f64 w ++ tail))).
Proof. exact json_verdict_depends_on_depth_only. Qed.

(* The JSON limit with the concrete model of the float spelling
   (theories/JsonFloatModel.v, JsonFloatProofs.v): no premise is left: the statements hold for every finite binary64 (ryu_ok_total). *)
From XtModel Require Import JsonFloatModel JsonFloatProofs JsonFloatTotalProofs.

Theorem C18_json_limit_exact_with_floats :
  forall (v : jval) (tail : bytes),
    jwf f_finite v = true -> val_end tail ->
    (jok (snd (json_value (jwrite json_f64 v ++ tail))) = true <-> jdepth v < JSON_DEPTH).
Proof. exact (json_value_limit_exact json_f64 f_finite json_f64_reads_all json_f64_head_all). Qed.

(* Detection: the two forms of the JSON trial (theories/JsonTrialModel.v) differ
   only by the slice form's upfront UTF-8 check, and the trial has no recursion
   limit at all - so on valid UTF-8 the detection verdict for JSON is the same from
   a slice and from a reader at EVERY nesting depth (whether the document then
   translates is the parser's limit, C18_json_limit_exact). *)
From XtModel Require Import Utf8 JsonTrialModel JsonTrialProofs.

Theorem C18_json_detection_same_from_slice_and_reader_at_every_depth :
  forall inp : bytes, utf8_valid inp = true -> json_trial_slice inp = json_trial_reader inp.
Proof. exact json_trial_forms_agree. Qed.
