(* C10 — xt recognises its own output without -f.
   Pinned statements only; proofs are in theories/SelfDetectProofs.v. *)
From XtModel Require Import Base InputModel FormatsModel DetectModel MsgpackModel SelfDetectProofs.

(* Detection over fully available input is the first trial that accepts, in the
   order MessagePack, JSON, YAML, TOML, for any three third-party trials (any
   operations, any verdict functions). *)
Theorem C10_detect_order :
  forall (sched : nat -> nat) (cutoff : nat) (toml_parses : bytes -> bool) (d : bytes) (tm tj ty : trial),
    snd (detect sched cutoff toml_parses tm tj ty (start (HSlice d))) = cascade toml_parses d tm tj ty.
Proof. exact detect_slice_order. Qed.

(* Text output can never be taken for MessagePack: the trial requires a
   collection marker first, and no ASCII byte ('{', '[', '-', ...) is one. *)
Theorem C10_text_is_not_msgpack :
  forall (utf8 : bytes -> bool) (b : N) (rest : bytes),
    (b < 128)%N -> msgpack_matches utf8 (b :: rest) = false.
Proof. intros. apply msgpack_needs_collection_marker. now apply ascii_not_marker. Qed.

(* MessagePack output of an array or a map starts with a collection marker. *)
Theorem C10_msgpack_collection_marker :
  forall n : N,
    (exists b rest, enc_array_len n = b :: rest /\ is_collection_marker b = true) /\
    (exists b rest, enc_map_len n = b :: rest /\ is_collection_marker b = true).
Proof. intros n. split; [apply array_header_is_marker|apply map_header_is_marker]. Qed.

(* xt's own JSON, YAML, MessagePack and TOML output: with the MessagePack trial
   modelled concretely and the other trials' acceptance of their own writer's
   output as explicit premises (third-party contracts; for TOML also the
   property's own exclusions). *)
Theorem C10_own_json :
  forall (sched : nat -> nat) (cutoff : nat) (toml_parses utf8 : bytes -> bool) (tm : trial),
    (forall d, slice_verdict d tm = Ok (msgpack_matches utf8 d)) ->
    forall (b : N) (rest : bytes) (tj ty : trial),
      b = 123%N \/ b = 91%N -> slice_verdict (b :: rest) tj = Ok true ->
      snd (detect sched cutoff toml_parses tm tj ty (start (HSlice (b :: rest)))) = Ok (Some Json).
Proof. exact own_json_detected. Qed.

Theorem C10_own_yaml :
  forall (sched : nat -> nat) (cutoff : nat) (toml_parses utf8 : bytes -> bool) (tm : trial),
    (forall d, slice_verdict d tm = Ok (msgpack_matches utf8 d)) ->
    forall (rest : bytes) (tj ty : trial),
      slice_verdict (dashes ++ rest) tj = Ok false -> slice_verdict (dashes ++ rest) ty = Ok true ->
      snd (detect sched cutoff toml_parses tm tj ty (start (HSlice (dashes ++ rest)))) = Ok (Some Yaml).
Proof. exact own_yaml_detected. Qed.

Theorem C10_own_msgpack :
  forall (sched : nat -> nat) (cutoff : nat) (toml_parses utf8 : bytes -> bool) (tm : trial),
    (forall d, slice_verdict d tm = Ok (msgpack_matches utf8 d)) ->
    forall (d : bytes) (tj ty : trial),
      msgpack_matches utf8 d = true ->
      snd (detect sched cutoff toml_parses tm tj ty (start (HSlice d))) = Ok (Some Msgpack).
Proof. exact own_msgpack_detected. Qed.

Theorem C10_own_toml :
  forall (sched : nat -> nat) (cutoff : nat) (toml_parses utf8 : bytes -> bool) (tm : trial),
    (forall d, slice_verdict d tm = Ok (msgpack_matches utf8 d)) ->
    forall (d : bytes) (tj ty : trial),
      msgpack_matches utf8 d = false ->
      slice_verdict d tj = Ok false -> slice_verdict d ty = Ok false -> toml_parses d = true ->
      snd (detect sched cutoff toml_parses tm tj ty (start (HSlice d))) = Ok (Some Toml).
Proof. exact own_toml_detected. Qed.

(* For MessagePack the trial's acceptance of xt's own output is not a premise:
   every array- or map-rooted value rmp can encode within the depth limit is
   accepted by the modelled trial, whatever follows it in the stream
   (theories/MsgpackCodecProofs.v). *)
From XtModel Require Import MsgpackCodecProofs.

Theorem C10_own_msgpack_accepted :
  forall (utf8_valid : bytes -> bool) (v : mval) (tail : bytes),
    encodable utf8_valid v -> is_collection v = true ->
    msgpack_matches utf8_valid (enc_val v ++ tail) = true.
Proof. exact own_output_matches. Qed.

(* For JSON the premise of C10_own_json is discharged.  The JSON detection trial
   (theories/JsonTrialModel.v: serde_json's ignore_value as IgnoredAny drives
   it, diffed against the real trial by the JI correspondence) accepts whatever
   the real parse accepts (theories/JsonTrialProofs.v), and the real parse reads
   back what the writer model wrote, floats included; so the stream xt writes
   for one or more values - the first a map or an array, each below the
   recursion limit, strings valid UTF-8, floats finite - is detected as JSON
   from a slice, whatever the YAML trial would have said. *)
From XtModel Require Import Utf8 JsonModel JsonWriteModel JsonWriteProofs JsonFloatModel JsonTrialModel JsonTrialProofs MsgpackTrialProofs.

Theorem C10_json_trial_accepts_what_parses :
  forall (inp : bytes) (evs : list ev) (rest : bytes),
    json_value inp = (evs, JOk rest) -> json_trial_reader inp = true.
Proof. exact json_value_accepted_by_trial. Qed.

Theorem C10_own_json_output_detected :
  forall (sched : nat -> nat) (cutoff : nat) (toml_parses utf8 : bytes -> bool) (ty : trial) (v : jval) (vs : list jval),
    is_collection v = true -> Forall (writable f_finite) (v :: vs) ->
    snd (detect sched cutoff toml_parses (msgpack_slice_trial utf8) json_slice_trial ty
           (start (HSlice (jwrite_docs json_f64 (v :: vs))))) = Ok (Some Json).
Proof. exact own_json_output_detected. Qed.

(* And for MessagePack, with the trial concrete as well: the encoding of any
   encodable array or map, whatever follows it, is detected as MessagePack
   (theories/MsgpackTrialProofs.v; the later trials universally quantified). *)
Theorem C10_own_msgpack_output_detected :
  forall (sched : nat -> nat) (cutoff : nat) (toml_parses utf8 : bytes -> bool) (tj ty : trial) (v : mval) (tail : bytes),
    encodable utf8 v -> MsgpackCodecProofs.is_collection v = true ->
    snd (detect sched cutoff toml_parses (msgpack_slice_trial utf8) tj ty (start (HSlice (enc_val v ++ tail)))) = Ok (Some Msgpack).
Proof. exact own_msgpack_output_detected. Qed.
