(* C09 — Format detection is a transparent, total pre-selection step.
   Pinned statements only; proofs are in theories/InputProofs.v,
   theories/DetectProofs.v and theories/DetectTotalProofs.v. *)
From XtModel Require Import Base InputModel InputProofs FormatsModel DetectModel DetectProofs DetectTotalProofs.

(* Whatever program of partial reads, prefix requests and re-borrows format
   detection runs against a reader handle, under any short-read schedule and
   with or without a source fault, every observation is the corresponding
   piece of the source's byte stream and taking ownership afterwards yields
   the complete, unaltered stream (or exactly the source's own fault). *)
Theorem C09_handle_transparent_reader :
  forall (sched : nat -> nat) (d : bytes) (flt : option nat)
         (ops : list op) (f : final) (os : list obs) (fo : fobs),
    run_reader sched d flt ops f = (os, fo) ->
    (exists sl : bool, trace_ok d flt sl (Some 0) ops os) /\ final_ok d flt fo.
Proof. exact reader_transparent. Qed.

Theorem C09_handle_transparent_slice :
  forall (sched : nat -> nat) (d : bytes) (ops : list op) (f : final)
         (os : list obs) (fo : fobs),
    run_slice sched d ops f = (os, fo) ->
    (exists sl : bool, trace_ok d None sl (Some 0) ops os) /\ final_ok d None fo.
Proof. exact slice_transparent. Qed.

(* Detection never fails for a reason of its own.  Over a reader whose source
   does not fail within its data (no fault, or one that lies beyond the end),
   with the four trials in their fixed order, for every read schedule, every
   program of handle operations the three third-party trials run and every
   verdict function that reports an I/O error only after the handle showed it
   one ("honest": the trials of msgpack.rs:44-53, json.rs:11-24, yaml.rs:17-34
   as repaired; the oracle measures it on every run), the outcome is a format
   or "no format detected" - never an error.  The same over a slice. *)
Theorem C09_detection_never_errs_reader :
  forall (sched : nat -> nat) (cutoff : nat) (toml_parses : bytes -> bool)
         (d : bytes) (flt : option nat) (tm tj ty : trial),
    fault_free d flt -> honest tm -> honest tj -> honest ty ->
    exists r : option fmt, snd (detect_reader sched cutoff toml_parses tm tj ty d flt) = Ok r.
Proof. exact detect_reader_never_errs. Qed.

Theorem C09_detection_never_errs_slice :
  forall (sched : nat -> nat) (cutoff : nat) (toml_parses : bytes -> bool)
         (d : bytes) (tm tj ty : trial),
    honest tm -> honest tj -> honest ty ->
    exists r : option fmt, snd (detect sched cutoff toml_parses tm tj ty (start (HSlice d))) = Ok r.
Proof. exact detect_slice_never_errs. Qed.

(* The selected format's parser is handed the same input as when that format is
   named: whatever the trials did - any programs, any verdicts, any schedule,
   a source failing anywhere or nowhere - the stream (bytes, and the fault that
   ends them) the parser reads after detection is the stream it reads when no
   detection runs. *)
Theorem C09_detected_input_is_explicit_input :
  forall (sched : nat -> nat) (cutoff : nat) (toml_parses : bytes -> bool)
         (tm tj ty : trial) (d : bytes) (flt : option nat),
    stream_of (finish (fst (fst (detect_reader sched cutoff toml_parses tm tj ty d flt))) FinInput) =
    stream_of (finish (from_reader d flt) FinInput).
Proof. exact detected_input_is_explicit_input. Qed.

(* ... and it is the complete, unaltered stream (or its first k bytes and the
   source's own fault). *)
Theorem C09_detection_preserves_stream :
  forall (sched : nat -> nat) (cutoff : nat) (toml_parses : bytes -> bool)
         (tm tj ty : trial) (d : bytes) (flt : option nat) (f : final),
    final_ok d flt (finish (fst (fst (detect_reader sched cutoff toml_parses tm tj ty d flt))) f).
Proof. exact detect_then_own. Qed.


(* "Every input that translates successfully is detected as the same format from a
   slice and from a reader", for JSON, on the models of the trial (JsonTrialModel.v:
   serde_json's ignore_value) and of the parse: a JSON stream of at least one
   document that the reader loop translates to the end is accepted by the JSON
   trial in both forms (so the upfront UTF-8 check of the slice form never makes
   them differ on such input), is never taken for MessagePack, and is detected as
   JSON whatever the later trials would say. *)
From XtModel Require Import Utf8 MsgpackModel JsonModel JsonTrialModel JsonTrialProofs MsgpackTrialProofs DetectModel SelfDetectProofs.

Theorem C09_translatable_json_accepted_by_both_trial_forms :
  forall (inp : bytes) (d : list ev) (docs : list (list ev)),
    json_reader inp = (d :: docs, JDone) ->
    json_trial_reader inp = true /\ json_trial_slice inp = true.
Proof. exact translatable_json_accepted. Qed.

Theorem C09_translatable_json_is_detected_as_json :
  forall (sched : nat -> nat) (cutoff : nat) (toml_parses utf8 : bytes -> bool) (ty : trial)
         (inp : bytes) (d : list ev) (docs : list (list ev)),
    json_reader inp = (d :: docs, JDone) ->
    snd (detect sched cutoff toml_parses (msgpack_slice_trial utf8) json_slice_trial ty (start (HSlice inp))) = Ok (Some Json).
Proof. exact translatable_json_detected. Qed.

(* The same clause for MessagePack: the detection trial (an IgnoredAny decode
   behind a collection marker) accepts whatever the transcoding decode accepts
   (theories/MsgpackTrialProofs.v), so a MessagePack stream of at least one
   document that translates to the end and opens with an array or a map is
   detected as MessagePack, whatever the later trials would say. *)
From XtModel Require Import MsgpackTrialProofs.

Theorem C09_translatable_msgpack_is_detected_as_msgpack :
  forall (sched : nat -> nat) (cutoff : nat) (toml_parses utf8 : bytes -> bool) (tj ty : trial)
         (inp : bytes) (d : list ev) (docs : list (list ev)) (m : N) (tl : bytes),
    transcode_reader utf8 inp = (d :: docs, MDone) -> inp = m :: tl -> is_collection_marker m = true ->
    snd (detect sched cutoff toml_parses (msgpack_slice_trial utf8) tj ty (start (HSlice inp))) = Ok (Some Msgpack).
Proof. exact translatable_msgpack_detected. Qed.
