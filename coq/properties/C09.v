(* C09 — Format detection is a transparent, total pre-selection step.
   Pinned statements only; proofs are in theories/InputProofs.v. *)
From XtModel Require Import Base InputModel InputProofs.

(* Whatever program of partial reads, prefix requests and re-borrows format
   detection runs against a reader handle, under any short-read schedule and
   with or without a source fault, every observation is the corresponding
   piece of the source's byte stream and taking ownership afterwards yields
   the complete, unaltered stream (or exactly the source's own fault). *)
Theorem C09_handle_transparent_reader :
  forall (sched : nat -> nat) (d : bytes) (flt : option nat)
         (ops : list op) (f : final) (os : list obs) (fo : fobs),
    run_reader sched d flt ops f = (os, fo) ->
    (exists sl : bool, trace_ok d flt sl (Some 0) ops os) /\ final_ok d flt fo.
Proof. exact reader_transparent. Qed.

Theorem C09_handle_transparent_slice :
  forall (sched : nat -> nat) (d : bytes) (ops : list op) (f : final)
         (os : list obs) (fo : fobs),
    run_slice sched d ops f = (os, fo) ->
    (exists sl : bool, trace_ok d None sl (Some 0) ops os) /\ final_ok d None fo.
Proof. exact slice_transparent. Qed.
