(* C11 — Errors name their true cause.
   Pinned statements only; proofs are in theories/TranscodeProofs.v. *)
From XtModel Require Import Base TranscodeModel TranscodeProofs.

(* For every deserializer script (any nesting of sequences and maps, failures
   of the deserializer before, between, inside or after elements) and every
   serializer failure schedule (any step: scalar, collection begin, the
   collection serializer's own step before or after an element, a key or a
   value, end), the transcoder drives the serializer through exactly the calls
   of the first-fault specification and reports the side that failed first,
   with its original error value. *)
Theorem C11_attribution :
  forall (fails : nat -> option nat) (sc : dscript),
    fst (transcode fails false sc) = fst (first_fault fails sc) /\
    attributed (snd (first_fault fails sc)) (snd (transcode fails false sc)).
Proof. exact transcode_attribution. Qed.

(* An input-side failure renders as the deserializer's own error and never
   mentions the synthetic "translation failed". *)
Theorem C11_display_input_side :
  forall (fails : nat -> option nat) (sc : dscript) (e : nat),
    snd (first_fault fails sc) = Some (FDe e) ->
    exists err, snd (transcode fails false sc) = OutErr err /\
                display_ids err = [(false, e)] /\ display_mentions_synthetic err = false.
Proof. exact display_de. Qed.

(* An output-side failure renders with the serializer's own reason in it. *)
Theorem C11_display_output_side :
  forall (fails : nat -> option nat) (sc : dscript) (s : nat),
    snd (first_fault fails sc) = Some (FSer s) ->
    exists err, snd (transcode fails false sc) = OutErr err /\ In (true, s) (display_ids err).
Proof. exact display_ser. Qed.

(* The formal record of the defect repaired by the fix: commit: with the pinned
   serialize_with_seed a writer failing on the separator inside [1, 2] is
   reported as a bare synthetic deserializer error. *)
Theorem C11_pinned_tree_refuted :
  snd (first_fault d4_fails d4_script) = Some (FSer 7) /\
  snd (transcode d4_fails true d4_script) = OutErr (ErrDe DSyn) /\
  snd (transcode d4_fails false d4_script) = OutErr (ErrSer (SE 7) DSyn).
Proof. exact pinned_attribution_refuted. Qed.
