(* C14 — CLI source-format resolution and agreement with the library.
   Pinned statements only; proofs are in theories/CliProofs.v. *)
From XtModel Require Import Base FormatsModel IoModel IoProofs CliModel CliProofs.

(* -f wins over the extension ... *)
Theorem C14_option_first :
  forall (c : cli) (p : bytes) (f : fmt), c_from c = Some f -> resolve_from c p = Some f.
Proof. exact resolve_prefers_option. Qed.

(* ... then the extension; None means content detection. *)
Theorem C14_then_extension :
  forall (c : cli) (p : bytes),
    c_from c = None -> is_stdin_path p = false -> resolve_from c p = extension_format p.
Proof. exact resolve_falls_back_to_extension. Qed.

(* Only the last extension counts, in any directory, after any stem (multi-dot
   names included). *)
Theorem C14_last_extension :
  forall (dir : bytes) (c : N) (stem e : bytes),
    no_byte 47 (c :: stem) = true -> no_byte 47 e = true -> no_byte 46 e = true -> c <> 46%N ->
    extension (dir ++ 47%N :: c :: stem ++ 46%N :: e) = Some e.
Proof. exact extension_is_last. Qed.

(* The extension is matched case-insensitively: every spelling of the same
   letters selects the same format. *)
Theorem C14_case_insensitive :
  forall e e' : bytes, map lower e = map lower e' -> ext_table (map lower e) = ext_table (map lower e').
Proof. exact extension_case_insensitive. Qed.

Theorem C14_lower_idempotent : forall b : N, lower (lower b) = lower b.
Proof. exact lower_idem. Qed.

(* Standard input is read at most once per run. *)
Theorem C14_stdin_once :
  forall (wsched : nat -> nat) (bcap : nat) (ins : list inp) (w : bufw) (op : list bytes),
    o_stdin_reads (main_loop wsched bcap w false op 0 ins) <= 1.
Proof. intros. apply stdin_once; [lia|reflexivity]. Qed.

(* Agreement with the library: a successful run has written exactly the
   concatenation of what the library produced for each input. *)
Theorem C14_agrees_with_library :
  forall (wsched : nat -> nat) (bcap : nat), 0 < bcap ->
  forall (c : cli) (kind : stdout_kind) (d : device) (ins : list inp),
    dev_ok d -> (kind = KTty -> c_to c <> Some Msgpack) ->
    o_status (run_cli wsched bcap c kind d ins) = Exit 0 ->
    o_stdout (run_cli wsched bcap c kind d ins) = dacc (bdev (fresh d)) ++ all_out ins.
Proof.
  intros wsched bcap Hb c kind d ins Hok Hk H0.
  destruct (run_cli_facts wsched bcap Hb c kind d ins Hok Hk) as [_ _ _ E _ _ _]. now destruct (E H0).
Qed.
