(* C06 — Round trip and idempotence of xt's own output.
   Pinned statements only; proofs are in theories/RoundTripProofs.v and
   theories/FidelityProofs.v. *)
From XtModel Require Import Base TranscodeModel FidelityModel FidelityProofs RoundTripProofs.

(* xt's part: between any reader and any writer it forwards the reader's calls
   unchanged (every document, every scalar kind). *)
Theorem C06_xt_forwards_unchanged :
  forall sc : dscript,
    clean sc = true -> transcode never_fails false sc = (log_after s0 (calls_of sc), OutOk).
Proof. exact stream_forwarding. Qed.

(* Given that, xt's output in format B is a fixed point of xt (B -> B
   reproduces it byte for byte) for every codec B whose reader reads what its
   writer wrote back to calls the writer writes identically (premise). *)
Theorem C06_output_is_a_fixed_point :
  forall (call text : Type) (dec_a dec_b : text -> option (list call)) (enc_b : list call -> option text),
    (forall c t, enc_b c = Some t -> exists c', dec_b t = Some c' /\ enc_b c' = Some t) ->
    forall x t, xt call text dec_a enc_b x = Some t -> xt call text dec_b enc_b t = Some t.
Proof. exact output_is_a_fixed_point. Qed.

(* A -> B -> A equals A -> A whenever B's reader returns calls that A's writer
   cannot tell from the original ones (premise: B represents the document). *)
Theorem C06_round_trip :
  forall (call text : Type) (dec_a dec_b : text -> option (list call)) (enc_a enc_b : list call -> option text),
    (forall c t, enc_b c = Some t -> exists c', dec_b t = Some c' /\ enc_a c' = enc_a c) ->
    forall x t, xt call text dec_a enc_b x = Some t -> xt call text dec_b enc_a t = xt call text dec_a enc_a x.
Proof. exact round_trip_equals_direct. Qed.

(* For B = MessagePack the premise is discharged in the model of rmp/rmp-serde
   (theories/MsgpackCodecProofs.v): for every stream of values rmp can encode
   (64-bit integers, 32-bit lengths, UTF-8 strings, at most 1023 collections
   around a scalar), of any size, MessagePack -> MessagePack through xt reads
   back exactly the events each document was written from and writes exactly
   the bytes it read, from a reader and from a slice. *)
From XtModel Require Import MsgpackModel MsgpackCodecProofs.

Theorem C06_msgpack_fixed_point_reader :
  forall (utf8_valid : bytes -> bool) (vs : list mval), Forall (encodable utf8_valid) vs ->
    let r := transcode_reader utf8_valid (flat_map enc_val vs) in
    fst r = map evs vs /\ mm_ok r = true /\ mm_output r = flat_map enc_val vs.
Proof. exact reader_identity. Qed.

Theorem C06_msgpack_fixed_point_slice :
  forall (utf8_valid : bytes -> bool) (vs : list mval), Forall (encodable utf8_valid) vs ->
    let s := transcode_slice utf8_valid (flat_map enc_val vs) in
    fst s = map evs vs /\ mm_ok s = true /\ mm_output s = flat_map enc_val vs.
Proof. exact slice_identity. Qed.

(* The round-trip clause for one pair, entirely on the codec models
   (theories/JsonMsgpackProofs.v): MessagePack -> JSON -> MessagePack.  For
   every stream of MessagePack values JSON can carry (no binary data, no 32-bit
   floats, string keys), the JSON text xt writes for them, read back by either
   JSON loop, makes the MessagePack writer produce exactly what MessagePack ->
   MessagePack produces: the canonical encoding of the original values.
   Floats are spelled by ryu; what the theorem needs of that spelling is a
   premise. *)
From XtModel Require Import JsonModel JsonWriteModel JsonWriteProofs JsonMsgpackProofs.

Theorem C06_msgpack_json_msgpack :
  forall (fmt_f64 : N -> bytes) (float_ok : N -> bool),
    (forall b, float_ok b = true -> forall f depth tail, val_end tail ->
       parse_value (S f) depth (fmt_f64 b ++ tail) = ([EF64 b], JOk tail)) ->
    (forall b, float_ok b = true ->
       exists c r, fmt_f64 b = c :: r /\ is_ws c = false /\ (c =? 93)%N = false /\ (c =? 125)%N = false /\ (c =? 44)%N = false) ->
    forall (vs : list mval) (js : list jval), Forall2 carries vs js -> Forall (writable float_ok) js ->
      jm_output (json_reader (jwrite_docs fmt_f64 js)) = flat_map enc_val vs /\
      jm_output (json_slice (jwrite_docs fmt_f64 js)) = flat_map enc_val vs.
Proof. exact msgpack_json_msgpack. Qed.

(* The other direction of the pair, JSON -> MessagePack -> JSON, with no premise
   at all (floats travel as their 64 bits): for every stream of values JSON
   carries (strings valid UTF-8, lengths and integers within MessagePack's
   ranges, nesting within the limit), the MessagePack xt writes from the JSON
   reader's events is the canonical encoding of the values; both MessagePack
   loops read it to the end; and the JSON writer, driven by the events they
   produce, writes exactly the bytes it writes for the values directly - what
   JSON -> JSON writes, one line per document, whatever the float formatter. *)
From XtModel Require Import Utf8 JsonRoundTripProofs.

Theorem C06_json_msgpack_json :
  forall (fmt : N -> bytes) (js : list jval),
    Forall jencodable js ->
    let mp := flat_map enc_evs (map jevs js) in
    mp = flat_map enc_val (map to_mval js) /\
    mm_ok (transcode_reader utf8_valid mp) = true /\ mm_ok (transcode_slice utf8_valid mp) = true /\
    json_of_docs fmt (fst (transcode_reader utf8_valid mp)) = Some (jwrite_docs fmt js) /\
    json_of_docs fmt (fst (transcode_slice utf8_valid mp)) = Some (jwrite_docs fmt js).
Proof. exact json_msgpack_json. Qed.

(* Idempotence for JSON on the models of serde_json's writer and reader: xt's
   JSON output (one line per document, for every stream of values the writer can
   produce and the reader accepts) is a fixed point of JSON -> JSON - read back by
   either loop and written again it gives the same bytes (floats under the
   premise on ryu's spelling). *)
Theorem C06_json_output_is_a_fixed_point :
  forall (fmt_f64 : N -> bytes) (float_ok : N -> bool),
    (forall b, float_ok b = true -> forall f depth tail, val_end tail ->
       parse_value (S f) depth (fmt_f64 b ++ tail) = ([EF64 b], JOk tail)) ->
    (forall b, float_ok b = true ->
       exists c r, fmt_f64 b = c :: r /\ is_ws c = false /\ (c =? 93)%N = false /\ (c =? 125)%N = false /\ (c =? 44)%N = false) ->
    forall js : list jval, Forall (writable float_ok) js ->
      json_of_docs fmt_f64 (fst (json_reader (jwrite_docs fmt_f64 js))) = Some (jwrite_docs fmt_f64 js) /\
      json_of_docs fmt_f64 (fst (json_slice (jwrite_docs fmt_f64 js))) = Some (jwrite_docs fmt_f64 js).
Proof. exact json_output_is_a_fixed_point. Qed.

(* The two statements above that carry a premise on the spelling of floats, for
   the concrete model of serde_json's serialize_f64 / ryu (theories/JsonFloatModel.v;
   the premise is discharged in theories/JsonFloatProofs.v and JsonFloatTotalProofs.v for every finite binary64). *)
From XtModel Require Import JsonFloatModel JsonFloatProofs JsonFloatTotalProofs.

Theorem C06_msgpack_json_msgpack_with_floats :
  forall (vs : list mval) (js : list jval), Forall2 carries vs js -> Forall (writable f_finite) js ->
    jm_output (json_reader (jwrite_docs json_f64 js)) = flat_map enc_val vs /\
    jm_output (json_slice (jwrite_docs json_f64 js)) = flat_map enc_val vs.
Proof. exact (msgpack_json_msgpack json_f64 f_finite json_f64_reads_all json_f64_head_all). Qed.

Theorem C06_json_output_is_a_fixed_point_with_floats :
  forall js : list jval, Forall (writable f_finite) js ->
    json_of_docs json_f64 (fst (json_reader (jwrite_docs json_f64 js))) = Some (jwrite_docs json_f64 js) /\
    json_of_docs json_f64 (fst (json_slice (jwrite_docs json_f64 js))) = Some (jwrite_docs json_f64 js).
Proof. exact (json_output_is_a_fixed_point json_f64 f_finite json_f64_reads_all json_f64_head_all). Qed.

(* Idempotence of JSON -> JSON for EVERY input, on the models alone
   (theories/JsonIdemProofs.v): whatever text the reader model reads - any
   spelling, any spacing, escapes, exponents, repeated keys - is the event list of
   values the writer model can write (integers within 64 bits, finite floats,
   valid UTF-8, nesting below the limit), so the fixed-point theorem applies to
   it: translating xt's JSON output again reproduces it byte for byte, and the
   output reads back to exactly the events the input was read to. *)
From XtModel Require Import JsonIdemProofs.

Theorem C06_json_to_json_idempotent_for_every_input :
  forall inp o : bytes, json_to_json_f inp = Some o -> json_to_json_f o = Some o.
Proof. exact json_to_json_idempotent. Qed.

Theorem C06_json_to_json_keeps_the_events :
  forall inp o : bytes, json_to_json_f inp = Some o -> fst (json_slice o) = fst (json_slice inp).
Proof. exact json_to_json_keeps_events. Qed.

(* The same for MessagePack -> MessagePack (theories/MsgpackIdemProofs.v): for
   EVERY byte string that the reader loop translates to the end - whatever widths
   its integers and lengths were spelled in - the bytes xt writes are the
   canonical encoding of encodable values, and both loops reproduce them byte for
   byte.  (bytes_ok: every element of the list is a byte.) *)
From XtModel Require Import MsgpackIdemProofs.

Theorem C06_msgpack_to_msgpack_idempotent_for_every_input :
  forall (utf8_valid : bytes -> bool) (inp : bytes),
    bytes_ok inp -> mm_ok (transcode_reader utf8_valid inp) = true ->
    let o := mm_output (transcode_reader utf8_valid inp) in
    mm_ok (transcode_reader utf8_valid o) = true /\ mm_output (transcode_reader utf8_valid o) = o /\
    mm_ok (transcode_slice utf8_valid o) = true /\ mm_output (transcode_slice utf8_valid o) = o.
Proof. exact msgpack_to_msgpack_idempotent. Qed.

(* The formal record of the two known findings on 32-bit floats
   (theories/JsonFloat32Model.v: serde_json's serialize_f32 / ryu's format32,
   diffed against the implementation by the RF correspondence).  On the models,
   the JSON text written for the witness values is translated by JSON -> JSON to
   another text ([respelled]: the same number, another spelling), because
   the reader reads every number as a binary64 and the writer then lays it out by
   format64's rules (positional notation for 1e-5 <= |x| < 1e16) instead of
   format32's (1e-6 <= |x| < 1e13). *)
From XtModel Require Import JsonFloat32Model JsonFloat32Proofs.

Theorem C06_f32_small_magnitude_known_class_witness :
  respelled (json_f32 3066414760 ++ [10%N]) = true.       (* -5.894184e-6, bits b6c5c6a8 *)
Proof. exact f32_small_magnitude_witness. Qed.

Theorem C06_f32_large_magnitude_known_class_witness :
  respelled (json_f32 1454761505 ++ [10%N]) = true.       (* 1e14, bits 56b5e621 *)
Proof. exact f32_large_magnitude_witness. Qed.

(* between the two decades the two printers agree (0.1, 1.0, 1e10, 16777216) *)
Theorem C06_f32_between_the_decades_is_a_fixed_point :
  forallb (fun b => reproduced (json_f32 b ++ [10%N])) [1036831949; 1065353216; 1343554297; 1266679808]%N = true.
Proof. exact f32_fixed_points_between. Qed.

(* The round-trip clause for the pair JSON / MessagePack, for EVERY JSON input
   (theories/JsonMsgpackAllProofs.v): whatever text JSON -> JSON translates, to an
   output shorter than 4 GiB (the largest length MessagePack can declare),
   JSON -> MessagePack -> JSON writes the same bytes, through either MessagePack
   loop.  The values read from any text fit MessagePack's ranges because every
   string and every collection in them is shorter than the text written for them. *)
From XtModel Require Import JsonMsgpackAllProofs.

Theorem C06_json_msgpack_json_for_every_input :
  forall inp o : bytes,
    json_to_json_f inp = Some o -> (N.of_nat (length o) < 4294967296)%N ->
    let mp := flat_map enc_evs (fst (json_slice inp)) in
    mm_ok (transcode_reader utf8_valid mp) = true /\ mm_ok (transcode_slice utf8_valid mp) = true /\
    json_of_docs json_f64 (fst (transcode_reader utf8_valid mp)) = Some o /\
    json_of_docs json_f64 (fst (transcode_slice utf8_valid mp)) = Some o.
Proof. exact json_msgpack_json_every_input. Qed.
