(* C06 — Round trip and idempotence of xt's own output.
   Pinned statements only; proofs are in theories/RoundTripProofs.v and
   theories/FidelityProofs.v. *)
From XtModel Require Import Base TranscodeModel FidelityModel FidelityProofs RoundTripProofs.

(* xt's part: between any reader and any writer it forwards the reader's calls
   unchanged (every document, every scalar kind). *)
Theorem C06_xt_forwards_unchanged :
  forall sc : dscript,
    clean sc = true -> transcode never_fails false sc = (log_after s0 (calls_of sc), OutOk).
Proof. exact stream_forwarding. Qed.

(* Given that, xt's output in format B is a fixed point of xt (B -> B
   reproduces it byte for byte) for every codec B whose reader reads what its
   writer wrote back to calls the writer writes identically (premise). *)
Theorem C06_output_is_a_fixed_point :
  forall (call text : Type) (dec_a dec_b : text -> option (list call)) (enc_b : list call -> option text),
    (forall c t, enc_b c = Some t -> exists c', dec_b t = Some c' /\ enc_b c' = Some t) ->
    forall x t, xt call text dec_a enc_b x = Some t -> xt call text dec_b enc_b t = Some t.
Proof. exact output_is_a_fixed_point. Qed.

(* A -> B -> A equals A -> A whenever B's reader returns calls that A's writer
   cannot tell from the original ones (premise: B represents the document). *)
Theorem C06_round_trip :
  forall (call text : Type) (dec_a dec_b : text -> option (list call)) (enc_a enc_b : list call -> option text),
    (forall c t, enc_b c = Some t -> exists c', dec_b t = Some c' /\ enc_a c' = enc_a c) ->
    forall x t, xt call text dec_a enc_b x = Some t -> xt call text dec_b enc_a t = xt call text dec_a enc_a x.
Proof. exact round_trip_equals_direct. Qed.
