(* C16 — Broken pipes and other write errors at the CLI.
   Pinned statements only; proofs are in theories/CliProofs.v. *)
From XtModel Require Import Base FormatsModel IoModel IoProofs CliModel CliProofs.

(* Every call the serializers and main() make on the stdout wrapper (write_all
   pieces and the per-input flush), over a BufWriter of any capacity and a
   device that takes short writes and starts failing anywhere: on success every
   byte is accounted for (on the device or in the buffer); a failure of a
   broken pipe becomes SIGPIPE, any other failure is returned as an error; no
   failure is ever dropped. *)
Theorem C16_write_all_step :
  forall (wsched : nat -> nat) (bcap : nat), 0 < bcap ->
  forall (w : bufw) (bs : bytes),
    dev_ok (bdev w) ->
    step_post w bs (fst (bw_write_all wsched bcap w bs)) (snd (bw_write_all wsched bcap w bs)).
Proof. exact bw_write_all_spec. Qed.

Theorem C16_flush_step :
  forall (wsched : nat -> nat) (w : bufw),
    dev_ok (bdev w) ->
    step_post w [] (fst (bw_flush wsched w)) (snd (bw_flush wsched w)) /\
    (snd (bw_flush wsched w) = WoOk -> bbuf (fst (bw_flush wsched w)) = []).
Proof. exact bw_flush_spec. Qed.

(* The whole run, wherever the consumer of stdout goes away: termination by
   SIGPIPE happens only for a broken pipe and leaves standard error empty; exit
   status 0 implies that all output was written (never status 0 with output
   missing); status 1 always carries an error line; with a broken pipe no write
   failure is ever reported as status 1 text because it never gets that far. *)
Theorem C16_outcomes :
  forall (wsched : nat -> nat) (bcap : nat), 0 < bcap ->
  forall (ins : list inp) (w : bufw) (su : bool) (op : list bytes) (sr : nat),
    dev_ok (bdev w) -> bbuf w = [] ->
    let o := main_loop wsched bcap w su op sr ins in
    (o_status o = Signal13 -> dbroken (bdev w) = true /\ o_stderr o = ErrNone) /\
    (o_status o = Exit 0 -> o_stdout o = dacc (bdev w) ++ all_out ins) /\
    (o_status o = Exit 1 -> o_stderr o <> ErrNone) /\
    (wfault (dsink (bdev w)) = None -> o_status o <> Signal13).
Proof.
  intros wsched bcap Hb ins w su op sr Hok Hbuf. cbn zeta.
  destruct (main_loop_facts wsched bcap Hb ins w su op sr Hok Hbuf) as [_ _ _ E0 Es E1 En].
  split; [intros H; destruct (Es H) as (A & B & _); now split|].
  split; [intros H; now destruct (E0 H)|].
  split; [intros H; now destruct (E1 H)|exact En].
Qed.

(* Non-vacuity: a consumer that goes away after 5 bytes while 12 remain. *)
Example C16_sigpipe_example :
  let i1 := {| i_path := [97]%N; i_open := OpenData; i_trace := [[1; 2; 3; 4; 5; 6]%N; [7; 8; 9; 10; 11; 12]%N]; i_ok := true |} in
  let d := {| dsink := {| acc := []; wfault := Some 5 |}; dbroken := true |} in
  let o := main_loop (fun _ => 1) 4 (fresh d) false [] 0 [i1] in
  o_status o = Signal13 /\ o_stdout o = [1; 2; 3; 4; 5]%N /\ o_stderr o = ErrNone.
Proof. vm_compute. repeat split. Qed.
