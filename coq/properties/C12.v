(* C12 — I/O faults and partial I/O are handled faithfully by the library.
   Pinned statements only; proofs are in theories/IoProofs.v, TruncProofs.v,
   DetectProofs.v and InputProofs.v. *)
From XtModel Require Import Base InputModel InputProofs FormatsModel FormatsProofs
  IoModel IoProofs TruncProofs DetectModel DetectProofs.

(* Writer side.  For every pattern of short writes, every point k at which the
   writer starts failing (or none), every target and every history of translate
   calls and documents, with every way the serializers cut their output into
   write_all calls: the writer has accepted exactly the first k bytes (all of
   them if it never fails) of what an ideal writer receives. *)
Theorem C12_writer_fault_prefix :
  forall (wsched : nat -> nat) (k : option nat) (to : fmt) (cs : list wcall),
    fst (translate_history_w wsched k to cs) = cap_at k (fst (translate_history to (map abs_call cs))).
Proof. exact faulty_writer_prefix. Qed.

(* A writer that accepts data only in arbitrary short pieces, and never fails,
   receives exactly the fault-free output, and every call ends as it does with
   an ideal writer. *)
Theorem C12_short_writes_exact :
  forall (wsched : nat -> nat) (to : fmt) (cs : list wcall),
    translate_history_w wsched None to cs =
      (fst (translate_history to (map abs_call cs)),
       map verdict_ok (snd (translate_history to (map abs_call cs)))).
Proof. exact short_writes_exact. Qed.

(* write_all itself: the sink ends with exactly the bytes that fit, in order,
   succeeds iff everything fitted, and never ends in WriteZero or out of fuel. *)
Theorem C12_write_all :
  forall (wsched : nat -> nat) (s : wsink) (buf : bytes),
    sink_ok s ->
    let r := put wsched s buf in
    wfault (fst r) = wfault s /\
    acc (fst r) = cap_at (wfault s) (acc s ++ buf) /\
    sink_ok (fst r) /\
    (snd r = WOk /\ fits (wfault s) (length (acc s ++ buf)) = true \/
     snd r = WErr /\ fits (wfault s) (length (acc s ++ buf)) = false).
Proof. exact put_spec. Qed.

(* Reader side, Translator level.  An input cut short by a reader fault (the
   first j documents, then at most the beginning of document j, then the
   error) produces a prefix of the fault-free output, and that call fails. *)
Theorem C12_truncated_input_prefix :
  forall (to : fmt) (cs : list call) (c c' : call),
    truncation c c' ->
    prefix_of (fst (translate_history to (cs ++ [c']))) (fst (translate_history to (cs ++ [c]))) /\
    exists vs v, snd (translate_history to (cs ++ [c'])) = vs ++ [v] /\ v <> VOk.
Proof. exact truncated_input_prefix. Qed.

(* Reader side, detection.  Over a reader whose fault lies within the input
   (and within the TOML cutoff), whatever the three third-party trials do and
   answer, detection never ends in "no format" and never in TOML: the TOML
   trial, which is last and reads everything, meets the fault and propagates
   it. *)
Theorem C12_detection_does_not_mask_fault :
  forall (sched : nat -> nat) (cutoff : nat) (toml_parses : bytes -> bool)
         (tm tj ty : trial) (d : bytes) (k : nat),
    k <= length d -> length d < cutoff ->
    let r := snd (detect_reader sched cutoff toml_parses tm tj ty d (Some k)) in
    r <> Ok None /\ r <> Ok (Some Toml).
Proof. exact detect_fault_not_masked. Qed.

(* Reader side, input handle.  Whatever detection did, under any read schedule,
   the translator then owns the complete unaltered stream, or exactly the first
   k bytes followed by the source's own fault (final_ok, InputProofs.v). *)
Theorem C12_fault_reaches_translator :
  forall (sched : nat -> nat) (cutoff : nat) (toml_parses : bytes -> bool)
         (tm tj ty : trial) (d : bytes) (flt : option nat) (f : final),
    final_ok d flt (finish (fst (fst (detect_reader sched cutoff toml_parses tm tj ty d flt))) f).
Proof. exact detect_then_own. Qed.
