(* C05 — Streaming translation: bounded lag and bounded memory.
   Pinned statements only; proofs are in theories/StreamProofs.v,
   theories/ChunkerProofs.v and theories/TotalityProofs.v. *)
From XtModel Require Import Base Utf8 UtfModel UtfStreamProofs InputModel InputProofs TotalityProofs StreamModel StreamProofs.

(* In every run of the per-document loop - any number of documents, any stream
   length, any packetisation of the stream into read() results, any monotone
   look-ahead function - whenever the source is asked for more data, every
   document whose input had already been delivered has been handed to the
   writer. *)
Theorem C05_prompt :
  forall (need : nat -> nat) (ndocs total : nat) (sched : nat -> nat),
    (forall i j, i <= j -> need i <= need j) ->
    prompt need ndocs [] (run need ndocs total sched).
Proof. exact run_is_prompt. Qed.

(* The property's bound: if completing document k never needs input beyond the
   end of document k+2 (premise on the third-party parser's look-ahead, measured
   on every run), then by the time the reader is asked for data beyond document
   k+2 the translation of document k has been handed to the writer. *)
Theorem C05_lag_at_most_two :
  forall (need : nat -> nat) (ndocs total : nat) (sched : nat -> nat) (ends : nat -> nat),
    (forall i j, i <= j -> need i <= need j) ->
    (forall k, need k <= ends (k + 2)) ->
    forall before d after,
      run need ndocs total sched = before ++ TR d :: after ->
      forall k, k < ndocs -> ends (k + 2) <= d -> written k before.
Proof. exact lag_at_most_two. Qed.

(* Detection reads a bounded amount: a prefix request of n bytes leaves at most
   max(n, what was already captured) bytes in the capture buffer, whatever the
   read schedule (so the TOML trial holds at most 2 MiB, the YAML trial its
   BufReader's look-ahead). *)
Theorem C05_detection_capture_bounded :
  forall (c : cap) (size : nat) (c' : cap) (r : ioresult unit),
    Inv c -> cap_capture_up_to c size = (c', r) ->
    length (prefix c') <= Nat.max (length (prefix c)) size.
Proof. exact capture_bounded. Qed.

(* The formal root of the known finding K-C05-utf16-yaml-reencoder-fills-buffer:
   the UTF-16/32 re-encoder never returns early.  Whatever its state and the
   text still to come, a read() into a buffer of n bytes returns n bytes unless
   the text ends first - so when libyaml asks for 16 KiB it consumes input until
   16 KiB of UTF-8 exist, however many complete documents that spans.  (For
   UTF-8 input the request is passed to the source, which may return early.)
   The look-ahead premise of C05_lag_at_most_two therefore cannot be met by
   re-encoded streams of small documents; the oracle measures the actual lag
   and reports it as that known finding. *)
Theorem C05_reencoder_fills_request :
  forall (e : estate) (cs : list N) (n : nat),
    enc_at e cs ->
    exists (out : bytes) (e' : estate) (cs' : list N),
      enc_read e n = ROk out e' /\ enc_at e' cs' /\ (length out = n \/ pending e' cs' = []).
Proof. exact reencoder_fills_request. Qed.

(* A witness on the model (the replay of the known finding): thirty YAML
   documents "--- 1\n" in UTF-16LE.  The first read() libyaml issues (16 KiB)
   consumes the whole input - all thirty documents - before a single document
   can be handed over. *)
Example C05_reencoder_lag_witness :
  let doc := [45; 45; 45; 32; 49; 10]%N in
  let text := concat (repeat doc 30) in
  match encoder_new (encode_as false false text) Utf16Little with
  | Recode e =>
      match enc_read e (N.to_nat 16384) with
      | ROk out e' => length out = 180 /\ rest (dec_ e') = [] /\ out = utf8_encode_all text
      | RErr _ _ => False
      end
  | Passthrough _ => False
  end.
Proof. vm_compute. repeat split. Qed.

(* The look-ahead premise, discharged for MessagePack on the model of rmp-serde's
   decoder (theories/MsgpackAgreeProofs.v): a document that decodes is decoded
   the same way whatever follows it - same events, and everything that follows is
   left untouched.  The reader loop therefore needs no byte beyond the end of
   document k to hand document k over: need k = ends k <= ends (k + 2). *)
From XtModel Require Import MsgpackModel MsgpackDecProofs MsgpackAgreeProofs.

Theorem C05_msgpack_decoder_needs_no_lookahead :
  forall (utf8_valid : bytes -> bool) (ext_ok : bool) (doc : bytes) (depth : nat) (tail : bytes) (evs : list ev),
    decode utf8_valid ext_ok doc depth = (evs, DOk []) ->
    decode utf8_valid ext_ok (doc ++ tail) depth = (evs, DOk tail).
Proof.
  intros u x doc depth tail evs H.
  exact (D_extend u x doc depth tail evs (DOk []) H I).
Qed.
