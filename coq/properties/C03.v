(* C03 — Multi-document and multi-input output is the ordered concatenation.
   Pinned statements only; proofs are in theories/FormatsProofs.v. *)
From XtModel Require Import Base FormatsModel FormatsProofs.

(* For every streaming target and every history of translate calls (any number
   of inputs, any number of documents in each) whose documents all translate,
   the writer receives exactly the concatenation, in order, of the framed
   translations of each document taken alone (JSON: one line per document;
   YAML: "---" before every document; MessagePack: back to back), and every
   call succeeds. *)
Theorem C03_concat :
  forall (to : fmt) (cs : list call),
    to <> Toml -> all_ok cs = true ->
    translate_history to cs =
      (flat_map (fun d => frame to (doc_body d)) (all_docs cs), map (fun _ => VOk) cs).
Proof. exact concat_of_documents. Qed.

(* N = 0: no document, no output, whatever the number of calls. *)
Theorem C03_zero_documents :
  forall (to : fmt) (cs : list call), all_docs cs = [] -> fst (translate_history to cs) = [].
Proof. exact no_documents_no_output. Qed.

(* Whatever happens within one call's document loop, the bytes already handed
   to the writer stay: output is only ever appended to. *)
Theorem C03_append_only :
  forall (to : fmt) (ds : list doc) (st : tstate) (i : nat),
    prefix_of (sink st) (sink (fst (run_docs to st ds i))).
Proof. exact run_docs_extends. Qed.

(* The YAML document iterator (src/yaml/chunker.rs).  For every byte stream and
   every parser event stream that renders a well-formed list of document spans
   (libyaml's contract: offsets monotone, within what was pulled, cuts on
   UTF-8 boundaries), the chunker yields exactly one chunk per document, in
   order, each the bytes between the previous document's end and its own end,
   with its kind; the delayed last document is flushed at STREAM-END; none is
   dropped, duplicated, merged or split; and it never panics. *)
From XtModel Require Import Utf8 ChunkerModel ChunkerProofs.

Theorem C03_chunker_exact :
  forall (data : bytes) (ds : list docspan) (evs : list yev),
    renders ds evs -> spans_wf data 0 ds ->
    chunker data evs = map IDoc (slices data 0 ds).
Proof. exact chunker_exact. Qed.

(* No byte between documents is lost or duplicated: the chunks, concatenated,
   are the stream up to the last document's end. *)
Theorem C03_chunks_cover_the_stream :
  forall (data : bytes) (ds : list docspan) (evs : list yev),
    renders ds evs -> spans_wf data 0 ds ->
    flat_map (fun i => match i with IDoc c => c_content c | _ => [] end) (chunker data evs) =
      firstn (final_end 0 ds) data.
Proof. exact chunks_cover_the_stream. Qed.

(* Reframing for JSON output: the stream xt writes for N documents - each
   value followed by a newline - is read back, by the reader loop and by the
   slice loop, as exactly N documents with the events of the values written
   (theories/JsonWriteProofs.v; floats under the stated contract on ryu). *)
From XtModel Require Import MsgpackModel JsonModel JsonWriteModel JsonWriteProofs.

Theorem C03_json_output_recovers_documents :
  forall (fmt_f64 : N -> bytes) (float_ok : N -> bool),
    (forall b, float_ok b = true -> forall f depth tail, val_end tail ->
       parse_value (S f) depth (fmt_f64 b ++ tail) = ([EF64 b], JOk tail)) ->
    (forall b, float_ok b = true ->
       exists c r, fmt_f64 b = c :: r /\ is_ws c = false /\ (c =? 93)%N = false /\ (c =? 125)%N = false /\ (c =? 44)%N = false) ->
    forall vs : list jval, Forall (writable float_ok) vs ->
      json_reader (jwrite_docs fmt_f64 vs) = (map jevs vs, JDone) /\
      json_slice (jwrite_docs fmt_f64 vs) = (map jevs vs, JDone).
Proof. intros f k H1 H2 vs H. split; [exact (json_reader_reads_docs f k H1 H2 vs H)|exact (json_slice_reads_docs f k H1 H2 vs H)]. Qed.

(* and for MessagePack output: back-to-back values are recovered one by one
   (theories/MsgpackCodecProofs.v). *)
From XtModel Require Import MsgpackCodecProofs.

Theorem C03_msgpack_output_recovers_documents :
  forall (utf8_valid : bytes -> bool) (vs : list mval), Forall (encodable utf8_valid) vs ->
    fst (transcode_reader utf8_valid (flat_map enc_val vs)) = map evs vs /\
    fst (transcode_slice utf8_valid (flat_map enc_val vs)) = map evs vs.
Proof.
  intros u vs H. split; [exact (proj1 (reader_identity u vs H))|exact (proj1 (slice_identity u vs H))].
Qed.

(* One line per document: the JSON writer never emits a raw line break inside a
   document (controls inside strings are escaped), so the stream written for N
   documents contains exactly N line breaks (given that ryu's float spelling
   contains none). *)
Theorem C03_json_one_line_per_document :
  forall (fmt_f64 : N -> bytes), (forall b, ~ In 10%N (fmt_f64 b)) ->
    forall vs : list jval, count_occ N.eq_dec (jwrite_docs fmt_f64 vs) 10%N = length vs.
Proof. exact one_line_per_document. Qed.

(* The same two statements for the concrete model of the float spelling
   (theories/JsonFloatModel.v, JsonFloatProofs.v): no premise is left: the statements hold for every finite binary64 (ryu_ok_total). *)
From XtModel Require Import JsonFloatModel JsonFloatProofs JsonFloatTotalProofs.

Theorem C03_json_output_recovers_documents_with_floats :
  forall vs : list jval, Forall (writable f_finite) vs ->
    json_reader (jwrite_docs json_f64 vs) = (map jevs vs, JDone) /\
    json_slice (jwrite_docs json_f64 vs) = (map jevs vs, JDone).
Proof.
  intros vs H. split; [exact (json_reader_reads_docs json_f64 f_finite json_f64_reads_all json_f64_head_all vs H)
                      |exact (json_slice_reads_docs json_f64 f_finite json_f64_reads_all json_f64_head_all vs H)].
Qed.

Theorem C03_json_one_line_per_document_with_floats :
  forall vs : list jval, count_occ N.eq_dec (jwrite_docs json_f64 vs) 10%N = length vs.
Proof. exact (one_line_per_document json_f64 json_f64_no_newline). Qed.

(* For EVERY JSON input that JSON -> JSON translates (theories/JsonIdemProofs.v):
   the output has exactly one line per document of the input, however the input
   was spaced and broken into lines. *)
From XtModel Require Import JsonIdemProofs.

Theorem C03_json_to_json_one_line_per_input_document :
  forall inp o : bytes, json_to_json_f inp = Some o ->
    count_occ N.eq_dec o 10%N = length (fst (json_slice inp)).
Proof. exact json_to_json_one_line_per_input_document. Qed.
