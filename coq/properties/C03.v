(* C03 — Multi-document and multi-input output is the ordered concatenation.
   Pinned statements only; proofs are in theories/FormatsProofs.v. *)
From XtModel Require Import Base FormatsModel FormatsProofs.

(* For every streaming target and every history of translate calls (any number
   of inputs, any number of documents in each) whose documents all translate,
   the writer receives exactly the concatenation, in order, of the framed
   translations of each document taken alone (JSON: one line per document;
   YAML: "---" before every document; MessagePack: back to back), and every
   call succeeds. *)
Theorem C03_concat :
  forall (to : fmt) (cs : list call),
    to <> Toml -> all_ok cs = true ->
    translate_history to cs =
      (flat_map (fun d => frame to (doc_body d)) (all_docs cs), map (fun _ => VOk) cs).
Proof. exact concat_of_documents. Qed.

(* N = 0: no document, no output, whatever the number of calls. *)
Theorem C03_zero_documents :
  forall (to : fmt) (cs : list call), all_docs cs = [] -> fst (translate_history to cs) = [].
Proof. exact no_documents_no_output. Qed.

(* Whatever happens within one call's document loop, the bytes already handed
   to the writer stay: output is only ever appended to. *)
Theorem C03_append_only :
  forall (to : fmt) (ds : list doc) (st : tstate) (i : nat),
    prefix_of (sink st) (sink (fst (run_docs to st ds i))).
Proof. exact run_docs_extends. Qed.
