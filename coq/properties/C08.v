(* C08 — TOML output is nothing or exactly one valid document.
   Pinned statements only; proofs are in theories/FormatsProofs.v. *)
From XtModel Require Import Base FormatsModel FormatsProofs.

(* Over any history of translate calls and any documents (accepted or refused,
   in any order), the bytes a TOML output has written are nothing, or exactly
   the serialization of one complete accepted document. *)
Theorem C08_nothing_or_one :
  forall cs : list call,
    fst (translate_history Toml cs) = [] \/
    exists b, In (DocOk b) (all_docs cs) /\ fst (translate_history Toml cs) = b.
Proof. exact toml_nothing_or_one. Qed.

(* Once a document has been accepted or refused, every further document -- in
   the same input or in a later one -- is refused and writes nothing. *)
Theorem C08_refuses_second :
  forall (s : tstate) (ds : list doc) (n : nat),
    used s = true -> ds <> [] -> run_docs Toml s ds n = (s, Some (VErrMulti n)).
Proof. exact toml_refuses_second. Qed.

(* A refused document writes nothing. *)
Theorem C08_refusal_writes_nothing :
  forall (s : tstate) (p : bytes) (n : nat) (ds : list doc),
    used s = false ->
    run_docs Toml s (DocRefused p :: ds) n = ({| sink := sink s; used := true |}, Some (VErrDoc n)).
Proof. exact toml_refusal_writes_nothing. Qed.
