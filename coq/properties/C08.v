(* C08 — TOML output is nothing or exactly one valid document.
   Pinned statements only; proofs are in theories/FormatsProofs.v. *)
From XtModel Require Import Base FormatsModel FormatsProofs.

(* Over any history of translate calls and any documents (accepted or refused,
   in any order), the bytes a TOML output has written are nothing, or exactly
   the serialization of one complete accepted document. *)
Theorem C08_nothing_or_one :
  forall cs : list call,
    fst (translate_history Toml cs) = [] \/
    exists b, In (DocOk b) (all_docs cs) /\ fst (translate_history Toml cs) = b.
Proof. exact toml_nothing_or_one. Qed.

(* Once a document has been accepted or refused, every further document -- in
   the same input or in a later one -- is refused and writes nothing. *)
Theorem C08_refuses_second :
  forall (s : tstate) (ds : list doc) (n : nat),
    used s = true -> ds <> [] -> run_docs Toml s ds n = (s, Some (VErrMulti n)).
Proof. exact toml_refuses_second. Qed.

(* A refused document writes nothing. *)
Theorem C08_refusal_writes_nothing :
  forall (s : tstate) (p : bytes) (n : nat) (ds : list doc),
    used s = false ->
    run_docs Toml s (DocRefused p :: ds) n = ({| sink := sink s; used := true |}, Some (VErrDoc n)).
Proof. exact toml_refusal_writes_nothing. Qed.

(* Which documents are accepted.  On the model of what a TOML output does with
   a document (toml::Value's Deserialize, then xt's root check; diffed against
   the implementation on generated documents with planted offences): a document
   is written if and only if its root is a table and it is clean - no null and
   no byte array as a value, every integer within i64, the keys of every table
   strings (a later key may also be a byte array holding UTF-8, as the toml crate
   reads it) and no key twice in a table. *)
From XtModel Require Import MsgpackCodecProofs TomlAcceptModel TomlAcceptProofs.

Theorem C08_accepted_iff_clean_table :
  forall v : mval, toml_verdict v = None <-> is_table v = true /\ clean v = true.
Proof. exact accepted_iff. Qed.

(* The refusals the property names, each for every document whatever else it
   holds: a null anywhere (an element of an array or the value of an entry, at
   any depth), an integer TOML cannot hold anywhere, a root that is not a table;
   and also a byte array as a value, and a key that no table can have. *)
Theorem C08_null_anywhere_refused :
  forall v : mval, has_value is_nil v = true -> toml_verdict v <> None.
Proof. exact null_anywhere_refused. Qed.

Theorem C08_big_integer_anywhere_refused :
  forall v : mval, has_value is_big v = true -> toml_verdict v <> None.
Proof. exact big_integer_anywhere_refused. Qed.

Theorem C08_non_table_root_refused :
  forall v : mval, is_table v = false -> toml_verdict v <> None.
Proof. exact non_table_root_refused. Qed.

Theorem C08_bytes_anywhere_refused :
  forall v : mval, has_value is_bin v = true -> toml_verdict v <> None.
Proof. exact bytes_anywhere_refused. Qed.

Theorem C08_bad_key_refused :
  forall (kvs : list (mval * mval)) (k x : mval),
    In (k, x) kvs -> (forall b, key_string b k = None) -> toml_verdict (VMap kvs) <> None.
Proof. exact bad_key_refused. Qed.
