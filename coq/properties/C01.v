(* C01 — Cross-format value fidelity.
   Pinned statements only; proofs are in theories/TranscodeProofs.v and
   theories/FidelityProofs.v. *)
From XtModel Require Import Base TranscodeModel TranscodeProofs FidelityModel FidelityProofs.

(* Every one of the 17 scalar visit methods is forwarded to the serialize method
   of the same type (an integer keeps signedness and width, a float its width,
   a string stays a string), and no two are conflated. *)
Theorem C01_forward_keeps_type : forall m : vmethod, stag (forward m) = vtag m.
Proof. exact forward_keeps_type. Qed.

Theorem C01_forward_injective : forall m m' : vmethod, forward m = forward m' -> m = m'.
Proof. exact forward_injective. Qed.

(* Streaming route (every input except JSON slices).  For every document - any
   nesting, any scalar kinds and payloads, any size hints - and a serializer
   that does not fail, the transcoder succeeds having driven the serializer
   through exactly the canonical call sequence of the document: same values,
   same types, array order and map-entry order kept, nothing collected. *)
Theorem C01_stream_forwarding :
  forall sc : dscript,
    clean sc = true -> transcode never_fails false sc = (log_after s0 (calls_of sc), OutOk).
Proof. exact stream_forwarding. Qed.

(* Value route (JSON slices).  Deserializing into xt's borrowed Value and
   serializing it makes the canonical calls with lengths announced and byte
   strings written as u8 sequences ... *)
Theorem C01_value_forwarding :
  forall sc : dscript, clean sc = true -> value_roundtrip sc = Ok (calls_of_value sc).
Proof. exact value_forwarding. Qed.

(* ... which are the very same calls as the streaming route's whenever the
   document has no byte strings (JSON has none) and the hints are the lengths. *)
Theorem C01_routes_agree :
  forall sc : dscript, exact_hints sc = true -> calls_of_value sc = calls_of sc.
Proof. exact routes_agree. Qed.

(* The MessagePack codec, modelled after rmp / rmp-serde
   (theories/MsgpackCodecProofs.v): the reader recovers, from the bytes the
   writer produced for any encodable value and whatever follows them, exactly
   the events the value was written from — same types (unsigned/negative
   integer, f32/f64 bit patterns, string vs binary), same strings byte for
   byte, same array order, same map-entry order — for values of any size and
   any depth below the limit. *)
From XtModel Require Import MsgpackModel MsgpackDecProofs MsgpackCodecProofs.

Theorem C01_msgpack_reads_what_was_written :
  forall (utf8_valid : bytes -> bool) (ext_ok : bool) (v : mval),
    wfb utf8_valid v = true -> forall (d : nat) (tail : bytes), depth v < d ->
    decode utf8_valid ext_ok (enc_val v ++ tail) d = (evs v, DOk tail).
Proof. exact decode_encode. Qed.

(* No two encodable values with different events share an encoding, and no
   encoding is a proper prefix of another. *)
Theorem C01_msgpack_encoding_determines_events :
  forall (utf8_valid : bytes -> bool) (v v' : mval) (t t' : bytes),
    encodable utf8_valid v -> encodable utf8_valid v' ->
    enc_val v ++ t = enc_val v' ++ t' -> evs v = evs v' /\ t = t'.
Proof. exact encoding_determines_events. Qed.

(* JSON text written by serde_json's compact writer (theories/JsonWriteModel.v)
   is read back by its reader (theories/JsonModel.v) to exactly the events of
   the value written - integers of 64 bits stay integers of the same sign and
   value, strings of any content come back byte for byte through the escape
   table, array order and object-entry order are kept - for values of any size
   and any nesting below the recursion limit, whatever follows the value.
   Floats are spelled by ryu; the theorem states what it needs of that
   spelling (the reader reads it back to the same bits) as premises. *)
From XtModel Require Import JsonModel JsonWriteModel JsonWriteProofs.

Theorem C01_json_reads_what_was_written :
  forall (fmt_f64 : N -> bytes) (float_ok : N -> bool),
    (forall b, float_ok b = true -> forall f depth tail, val_end tail ->
       parse_value (S f) depth (fmt_f64 b ++ tail) = ([EF64 b], JOk tail)) ->
    (forall b, float_ok b = true ->
       exists c r, fmt_f64 b = c :: r /\ is_ws c = false /\ (c =? 93)%N = false /\ (c =? 125)%N = false /\ (c =? 44)%N = false) ->
    forall (v : jval) (tail : bytes), writable float_ok v -> val_end tail ->
      json_value (jwrite fmt_f64 v ++ tail) = (jevs v, JOk tail).
Proof. exact json_value_reads_back. Qed.

(* JSON -> MessagePack keeps the value, on the two codec models: for every stream
   of values JSON carries (within MessagePack's ranges and xt's depth limit),
   what either MessagePack loop reads from the MessagePack xt writes for them is
   the event list of the same values - same types, integers with their sign and
   magnitude, floats with the identical 64 bits, strings byte for byte, entries in
   the same order. *)
From XtModel Require Import Utf8 JsonWriteModel JsonRoundTripProofs.

Theorem C01_json_to_msgpack_same_value :
  forall js : list jval,
    Forall jencodable js ->
    let mp := flat_map enc_evs (map jevs js) in
    fst (transcode_reader utf8_valid mp) = map evs (map to_mval js) /\
    fst (transcode_slice utf8_valid mp) = map evs (map to_mval js) /\
    mm_ok (transcode_reader utf8_valid mp) = true /\ mm_ok (transcode_slice utf8_valid mp) = true.
Proof. exact json_to_msgpack_same_value. Qed.

(* The premise on the spelling of floats, discharged for the concrete model of
   serde_json's serialize_f64 / ryu's format64 (theories/JsonFloatModel.v: `null`
   for non-finite values, otherwise the shortest decimal that reads back, nearest
   to the value, ties to the even digit string, in ryu's five layouts; diffed
   against the implementation by the RY and MJ correspondences): the reader model
   reads the text back to the identical 64 bits, for EVERY finite binary64: the
   model's search for the shortest digits never fails (ryu_ok_total in
   theories/JsonFloatTotalProofs.v: the 18-digit truncation of the exact value is
   within an eighth of a unit in the last place below it, so the correctly
   rounded conversion returns the value itself). *)
From XtModel Require Import JsonFloatModel JsonFloatProofs JsonFloatTotalProofs.

Theorem C01_json_float_spelling_reads_back :
  forall b, f_finite b = true -> forall f depth tail, val_end tail ->
    parse_value (S f) depth (json_f64 b ++ tail) = ([EF64 b], JOk tail).
Proof. exact json_f64_reads_all. Qed.

Theorem C01_float_spelling_exists_for_every_finite_value :
  forall b, f_finite b = true -> ryu_ok b = true.
Proof. exact ryu_ok_total. Qed.

(* JSON input: the decimal -> binary64 conversion of the reader model is correctly
   rounded (theories/F64Proofs.v).  For a literal with digits D (D > 0) and
   decimal exponent E inside the range the conversion computes on, a result
   [Some a] means: at a scale s <= 1074 that is normalised (the quotient has 53
   bits, or s is the subnormal scale 2^-1074), the significand q' is the integer
   nearest to D * 10^E * 2^s, the even one on a tie, and a's exponent field and
   fraction decode to q' * 2^-s (to 2^52 * 2^(1-s) when rounding carried into
   the next binade). *)
From XtModel Require Import F64Proofs.

Theorem C01_json_decimal_correctly_rounded :
  forall (D : N) (E : Z) (a : N),
    D <> 0%N -> dec_in_range D E = true -> f64_of_decimal D E = Some a ->
    let num := dec_num D E in let den := dec_den E in
    exists (s : Z) (q' : N),
      (s <= 1074)%Z /\ normalised num den s /\
      nearest_even (sc_n num s) (sc_d den s) q' /\
      (a < inf_bits)%N /\
      ((q' < 2 ^ 53 /\ f_mant a = q' /\ f_exp2 a = (- s)%Z) \/
       (q' = 2 ^ 53 /\ f_mant a = 2 ^ 52 /\ f_exp2 a = (1 - s)%Z))%N.
Proof. exact f64_of_decimal_correctly_rounded. Qed.

(* so the read-back theorem holds with floats inside, no premise left *)
Theorem C01_json_reads_what_was_written_with_floats :
  forall (v : jval) (tail : bytes), writable f_finite v -> val_end tail ->
    json_value (jwrite json_f64 v ++ tail) = (jevs v, JOk tail).
Proof. exact (json_value_reads_back json_f64 f_finite json_f64_reads_all json_f64_head_all). Qed.

(* JSON -> JSON keeps the value, for EVERY input text (theories/JsonIdemProofs.v):
   whatever spelling, spacing, escape and exponent forms the input uses, the text
   xt writes is read back to exactly the events the input was read to - the same
   types, the same integers, the identical 64 bits of every float, the same
   strings byte for byte, the same entry order, repeated keys included. *)
From XtModel Require Import JsonIdemProofs.

Theorem C01_json_to_json_same_value_for_every_input :
  forall inp o : bytes, json_to_json_f inp = Some o -> fst (json_slice o) = fst (json_slice inp).
Proof. exact json_to_json_keeps_events. Qed.
