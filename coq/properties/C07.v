(* C07 — YAML in UTF-16/UTF-32 translates exactly like the same text in UTF-8.
   Pinned statements only; proofs are in theories/UtfProofs.v and
   theories/UtfStreamProofs.v. *)
From XtModel Require Import Base Utf8 UtfModel UtfProofs UtfStreamProofs.

(* Ill-formed input never turns into fabricated characters: every value the
   UTF-16 decoder turns into a char (both from_u32_unchecked sites) is a Unicode
   scalar value, for every decoder state over bytes. *)
Theorem C07_utf16_scalar_only :
  forall (d : dstate) (c : N) (d' : dstate),
    dstate_ok d -> utf16_next d = CSome c d' -> is_scalar c = true /\ dstate_ok d'.
Proof. exact utf16_next_scalar. Qed.

Theorem C07_utf32_scalar_only :
  forall (d : dstate) (c : N) (d' : dstate), utf32_next d = CSome c d' -> is_scalar c = true.
Proof. exact utf32_next_scalar. Qed.

(* Surrogate pairing is exact for every supplementary code point (all
   1,048,576 pairs): the pair's arithmetic reconstructs the code point. *)
Theorem C07_surrogate_pair_exact :
  forall c : N, (65536 <= c <= 1114111)%N ->
    match utf16_units c with
    | [lead; trail] =>
        (55296 <= lead <= 56319)%N /\ (56320 <= trail <= 57343)%N /\
        (65536 + ((lead - 55296) * 1024 + (trail - 56320)) = c)%N
    | _ => False
    end.
Proof. exact utf16_pair_roundtrip. Qed.

(* Encoding detection (YAML 1.2 section 5.2) is right for every text that
   starts with a BOM or an ASCII character followed by a non-NUL character. *)
Theorem C07_detect_utf16 :
  forall (bg : bool) (cs : list N),
    starts_ok cs -> detect (firstn 4 (utf16_encode bg cs)) = if bg then Utf16Big else Utf16Little.
Proof. exact detect_utf16. Qed.

Theorem C07_detect_utf32 :
  forall (bg : bool) (cs : list N),
    starts_ok cs -> detect (firstn 4 (utf32_encode bg cs)) = if bg then Utf32Big else Utf32Little.
Proof. exact detect_utf32. Qed.

(* The whole stream.  For every text (any list of Unicode scalar values), in
   UTF-16 or UTF-32, big- or little-endian, with or without a leading U+FEFF,
   and for EVERY sequence of read-buffer sizes libyaml might use (so characters
   and their UTF-8 expansions are cut wherever the buffer ends fall): what is
   read through the re-encoder is a prefix of the UTF-8 of the text (less one
   leading byte order mark), reading never fails, and when it reaches the end of
   the stream it has delivered exactly that UTF-8 - the same bytes the UTF-8
   form of the document gives the parser. *)
Theorem C07_reencoded_stream_exact :
  forall (w bg : bool) (cs : list N) (sizes : list nat),
    scalars cs ->
    let r := read_seq (encoder_new (encode_as w bg cs) (enc_of w bg)) sizes in
    prefix_of (fst r) (utf8_encode_all (strip_bom cs)) /\
    (forall err, snd r <> Failed err) /\
    (snd r = AtEof -> fst r = utf8_encode_all (strip_bom cs)).
Proof. exact reencoded_stream_exact. Qed.

(* The same when the encoding is not named but detected from the first bytes
   (Encoder::from_reader), for every text that starts like YAML. *)
Theorem C07_reencoded_stream_detected :
  forall (w bg : bool) (cs : list N) (sizes : list nat),
    scalars cs -> starts_ok cs ->
    let r := read_seq (encoder_from_reader (encode_as w bg cs)) sizes in
    prefix_of (fst r) (utf8_encode_all (strip_bom cs)) /\
    (forall err, snd r <> Failed err) /\
    (snd r = AtEof -> fst r = utf8_encode_all (strip_bom cs)).
Proof. exact reencoded_stream_detected. Qed.

(* The converse, for ALL input bytes: if reading through the re-encoder reaches
   the end of the stream without an error, the input is the UTF-16/32 encoding
   of a sequence of scalar values and the bytes read are the UTF-8 of exactly
   that sequence.  Ill-formed input (unpaired or reversed surrogates, a
   truncated code unit, a value above U+10FFFF or in the surrogate range) is
   therefore always reported as an error, and no input is ever turned into
   characters it does not encode. *)
Theorem C07_success_means_wellformed :
  forall (w bg : bool) (input : bytes) (sizes : list nat) (out : bytes),
    bytes_lt input ->
    read_seq (encoder_new input (enc_of w bg)) sizes = (out, AtEof) ->
    exists cs : list N, scalars cs /\ input = encode_as w bg cs /\ out = utf8_encode_all (strip_bom cs).
Proof. exact reencoded_success_means_wellformed. Qed.
