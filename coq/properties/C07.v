(* C07 — YAML in UTF-16/UTF-32 translates exactly like the same text in UTF-8.
   Pinned statements only; proofs are in theories/UtfProofs.v. *)
From XtModel Require Import Base Utf8 UtfModel UtfProofs.

(* Ill-formed input never turns into fabricated characters: every value the
   UTF-16 decoder turns into a char (both from_u32_unchecked sites) is a Unicode
   scalar value, for every decoder state over bytes. *)
Theorem C07_utf16_scalar_only :
  forall (d : dstate) (c : N) (d' : dstate),
    dstate_ok d -> utf16_next d = CSome c d' -> is_scalar c = true /\ dstate_ok d'.
Proof. exact utf16_next_scalar. Qed.

Theorem C07_utf32_scalar_only :
  forall (d : dstate) (c : N) (d' : dstate), utf32_next d = CSome c d' -> is_scalar c = true.
Proof. exact utf32_next_scalar. Qed.

(* Surrogate pairing is exact for every supplementary code point (all
   1,048,576 pairs): the pair's arithmetic reconstructs the code point. *)
Theorem C07_surrogate_pair_exact :
  forall c : N, (65536 <= c <= 1114111)%N ->
    match utf16_units c with
    | [lead; trail] =>
        (55296 <= lead <= 56319)%N /\ (56320 <= trail <= 57343)%N /\
        (65536 + ((lead - 55296) * 1024 + (trail - 56320)) = c)%N
    | _ => False
    end.
Proof. exact utf16_pair_roundtrip. Qed.

(* Encoding detection (YAML 1.2 section 5.2) is right for every text that
   starts with a BOM or an ASCII character followed by a non-NUL character. *)
Theorem C07_detect_utf16 :
  forall (bg : bool) (cs : list N),
    starts_ok cs -> detect (firstn 4 (utf16_encode bg cs)) = if bg then Utf16Big else Utf16Little.
Proof. exact detect_utf16. Qed.

Theorem C07_detect_utf32 :
  forall (bg : bool) (cs : list N),
    starts_ok cs -> detect (firstn 4 (utf32_encode bg cs)) = if bg then Utf32Big else Utf32Little.
Proof. exact detect_utf32. Qed.
