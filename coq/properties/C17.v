(* C17 — Memory safety of the YAML parser binding and decoders.
   Pinned statements only; proofs are in theories/MemProofs.v, UtfProofs.v and
   ChunkerProofs.v.  Partial by nature: see DESIGN.md. *)
From XtModel Require Import Base Utf8 UtfModel UtfProofs MemModel MemProofs ChunkerModel ChunkerProofs.

(* The read callback copies only within both buffers, whatever the reader
   reports; an over-reporting reader (any excess) gets a failure and no copy. *)
Theorem C17_copy_in_bounds :
  forall (size : nat) (a : ranswer) (len sz bouncer : nat),
    rh_copy (read_handler size a) = Some (len, sz, bouncer) ->
    len <= sz /\ len <= bouncer /\ sz = size /\ rh_size_read (read_handler size a) = Some len.
Proof. exact copy_in_bounds. Qed.

Theorem C17_over_report_refused :
  forall size n : nat, size < n ->
    rh_copy (read_handler size (RBytes n)) = None /\ rh_success (read_handler size (RBytes n)) = false /\
    rh_error_stashed (read_handler size (RBytes n)) = true.
Proof. exact over_report_refused. Qed.

(* Every resource trace the binding can produce - any client program, any
   reader behaviour, early drops at every point - is free of use after free and
   double free, deletes the parser before its read state, keeps every copy in
   bounds, deletes every initialised event exactly once, and leaves nothing alive. *)
Theorem C17_protocol_safe :
  forall prog : list cop, exists s, mrun m0 (session prog) = Ok s /\ mclean s = true.
Proof. exact protocol_safe. Qed.

(* Both from_u32_unchecked sites only ever see Unicode scalar values. *)
Theorem C17_scalars_valid :
  forall (d : dstate) (c : N) (d' : dstate),
    dstate_ok d -> utf16_next d = CSome c d' -> is_scalar c = true /\ dstate_ok d'.
Proof. exact utf16_next_scalar. Qed.

(* The chunker never slices outside what it captured (a clean panic is the
   worst outcome when libyaml's contract is broken; under the contract not even that). *)
Theorem C17_chunker_in_bounds :
  forall (data : bytes) (ds : list docspan) (evs : list yev),
    renders ds evs -> spans_wf data 0 ds ->
    length (chunker data evs) = length ds /\ forall i, In i (chunker data evs) -> exists c, i = IDoc c.
Proof. exact chunker_total. Qed.
