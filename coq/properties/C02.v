(* C02 — Result is independent of input source and read schedule.
   Pinned statements only; proofs are in theories/InputProofs.v and
   theories/DetectProofs.v. *)
From XtModel Require Import Base InputModel InputProofs FormatsModel DetectModel DetectProofs.

(* Whatever the read schedule and whatever format detection did before (any
   three third-party trials, any operations, any answers), with a source that
   does not fail: the format module is handed either the slice [d] or a reader
   whose complete stream is [d]; read to the end, the handle yields [d]. *)
Theorem C02_input_is_the_byte_string :
  forall (sched : nat -> nat) (cutoff : nat) (toml_parses : bytes -> bool)
         (tm tj ty : trial) (d : bytes) (f : final),
    match finish (fst (fst (detect_reader sched cutoff toml_parses tm tj ty d None))) f with
    | FSlice b => b = d
    | FReader bs e => bs = d /\ e = None
    | FCow r => r = Ok d
    end.
Proof.
  intros sched cutoff toml_parses tm tj ty d f.
  pose proof (detect_then_own sched cutoff toml_parses tm tj ty d None f) as H.
  destruct (finish _ f) as [b|bs [e|]|[b|e]]; cbn [final_ok] in H.
  - now destruct H.
  - destruct H as (k & Hk & _). discriminate.
  - now destruct H.
  - destruct H as [-> _]. reflexivity.
  - destruct H as (k & Hk & _). discriminate.
Qed.

(* Within one borrow, under any schedule, what successive reads return is
   always the next bytes of [d] (sizes depend on the schedule; contents and
   order never do), and a prefix request returns a prefix of [d] that is at
   least as long as asked or all of [d]: the trace specification of
   InputProofs.v, for a reader and for a slice. *)
Theorem C02_reads_are_the_stream :
  forall (sched : nat -> nat) (d : bytes) (ops : list op) (f : final) (os : list obs) (fo : fobs),
    run_reader sched d None ops f = (os, fo) ->
    (exists sl : bool, trace_ok d None sl (Some 0) ops os) /\ final_ok d None fo.
Proof. intros. eapply reader_transparent. eassumption. Qed.

Theorem C02_slice_same_observations :
  forall (sched : nat -> nat) (d : bytes) (ops : list op) (f : final) (os : list obs) (fo : fobs),
    run_slice sched d ops f = (os, fo) ->
    (exists sl : bool, trace_ok d None sl (Some 0) ops os) /\ final_ok d None fo.
Proof. intros. eapply slice_transparent. eassumption. Qed.

(* MessagePack: the two code paths (xt's own size calculator cutting a slice
   into documents that are decoded one by one; rmp-serde decoding value after
   value from a reader) agree for EVERY byte string: the same documents with
   the same events in the same order, success in one mode iff in the other,
   identical output on success and prefix-comparable output on failure.
   (utf8_valid is Rust's str::from_utf8(..).is_ok(), any function here.) *)
From XtModel Require Import MsgpackModel MsgpackAgreeProofs.

Theorem C02_msgpack_slice_reader_agree :
  forall (utf8_valid : bytes -> bool) (inp : bytes),
    let s := transcode_slice utf8_valid inp in
    let r := transcode_reader utf8_valid inp in
    fst s = fst r /\ mm_ok s = mm_ok r /\
    prefix_of (mm_output s) (mm_output r) /\ (mm_ok s = true -> mm_output s = mm_output r).
Proof. exact slice_reader_agree. Qed.
