(* C02 — Result is independent of input source and read schedule.
   Pinned statements only; proofs are in theories/InputProofs.v and
   theories/DetectProofs.v. *)
From XtModel Require Import Base InputModel InputProofs FormatsModel DetectModel DetectProofs.

(* Whatever the read schedule and whatever format detection did before (any
   three third-party trials, any operations, any answers), with a source that
   does not fail: the format module is handed either the slice [d] or a reader
   whose complete stream is [d]; read to the end, the handle yields [d]. *)
Theorem C02_input_is_the_byte_string :
  forall (sched : nat -> nat) (cutoff : nat) (toml_parses : bytes -> bool)
         (tm tj ty : trial) (d : bytes) (f : final),
    match finish (fst (fst (detect_reader sched cutoff toml_parses tm tj ty d None))) f with
    | FSlice b => b = d
    | FReader bs e => bs = d /\ e = None
    | FCow r => r = Ok d
    end.
Proof.
  intros sched cutoff toml_parses tm tj ty d f.
  pose proof (detect_then_own sched cutoff toml_parses tm tj ty d None f) as H.
  destruct (finish _ f) as [b|bs [e|]|[b|e]]; cbn [final_ok] in H.
  - now destruct H.
  - destruct H as (k & Hk & _). discriminate.
  - now destruct H.
  - destruct H as [-> _]. reflexivity.
  - destruct H as (k & Hk & _). discriminate.
Qed.

(* Within one borrow, under any schedule, what successive reads return is
   always the next bytes of [d] (sizes depend on the schedule; contents and
   order never do), and a prefix request returns a prefix of [d] that is at
   least as long as asked or all of [d]: the trace specification of
   InputProofs.v, for a reader and for a slice. *)
Theorem C02_reads_are_the_stream :
  forall (sched : nat -> nat) (d : bytes) (ops : list op) (f : final) (os : list obs) (fo : fobs),
    run_reader sched d None ops f = (os, fo) ->
    (exists sl : bool, trace_ok d None sl (Some 0) ops os) /\ final_ok d None fo.
Proof. intros. eapply reader_transparent. eassumption. Qed.

Theorem C02_slice_same_observations :
  forall (sched : nat -> nat) (d : bytes) (ops : list op) (f : final) (os : list obs) (fo : fobs),
    run_slice sched d ops f = (os, fo) ->
    (exists sl : bool, trace_ok d None sl (Some 0) ops os) /\ final_ok d None fo.
Proof. intros. eapply slice_transparent. eassumption. Qed.
