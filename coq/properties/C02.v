(* C02 — Result is independent of input source and read schedule.
   Pinned statements only; proofs are in theories/InputProofs.v and
   theories/DetectProofs.v. *)
From XtModel Require Import Base InputModel InputProofs FormatsModel DetectModel DetectProofs.

(* Whatever the read schedule and whatever format detection did before (any
   three third-party trials, any operations, any answers), with a source that
   does not fail: the format module is handed either the slice [d] or a reader
   whose complete stream is [d]; read to the end, the handle yields [d]. *)
Theorem C02_input_is_the_byte_string :
  forall (sched : nat -> nat) (cutoff : nat) (toml_parses : bytes -> bool)
         (tm tj ty : trial) (d : bytes) (f : final),
    match finish (fst (fst (detect_reader sched cutoff toml_parses tm tj ty d None))) f with
    | FSlice b => b = d
    | FReader bs e => bs = d /\ e = None
    | FCow r => r = Ok d
    end.
Proof.
  intros sched cutoff toml_parses tm tj ty d f.
  pose proof (detect_then_own sched cutoff toml_parses tm tj ty d None f) as H.
  destruct (finish _ f) as [b|bs [e|]|[b|e]]; cbn [final_ok] in H.
  - now destruct H.
  - destruct H as (k & Hk & _). discriminate.
  - now destruct H.
  - destruct H as [-> _]. reflexivity.
  - destruct H as (k & Hk & _). discriminate.
Qed.

(* Within one borrow, under any schedule, what successive reads return is
   always the next bytes of [d] (sizes depend on the schedule; contents and
   order never do), and a prefix request returns a prefix of [d] that is at
   least as long as asked or all of [d]: the trace specification of
   InputProofs.v, for a reader and for a slice. *)
Theorem C02_reads_are_the_stream :
  forall (sched : nat -> nat) (d : bytes) (ops : list op) (f : final) (os : list obs) (fo : fobs),
    run_reader sched d None ops f = (os, fo) ->
    (exists sl : bool, trace_ok d None sl (Some 0) ops os) /\ final_ok d None fo.
Proof. intros. eapply reader_transparent. eassumption. Qed.

Theorem C02_slice_same_observations :
  forall (sched : nat -> nat) (d : bytes) (ops : list op) (f : final) (os : list obs) (fo : fobs),
    run_slice sched d ops f = (os, fo) ->
    (exists sl : bool, trace_ok d None sl (Some 0) ops os) /\ final_ok d None fo.
Proof. intros. eapply slice_transparent. eassumption. Qed.

(* MessagePack: the two code paths (xt's own size calculator cutting a slice
   into documents that are decoded one by one; rmp-serde decoding value after
   value from a reader) agree for EVERY byte string: the same documents with
   the same events in the same order, success in one mode iff in the other,
   identical output on success and prefix-comparable output on failure.
   (utf8_valid is Rust's str::from_utf8(..).is_ok(), any function here.) *)
From XtModel Require Import MsgpackModel MsgpackAgreeProofs.

Theorem C02_msgpack_slice_reader_agree :
  forall (utf8_valid : bytes -> bool) (inp : bytes),
    let s := transcode_slice utf8_valid inp in
    let r := transcode_reader utf8_valid inp in
    fst s = fst r /\ mm_ok s = mm_ok r /\
    prefix_of (mm_output s) (mm_output r) /\ (mm_ok s = true -> mm_output s = mm_output r).
Proof. exact slice_reader_agree. Qed.

(* JSON (theories/JsonModel.v: serde_json's reader as xt drives it and xt's two
   document loops; theories/JsonProofs.v).  For EVERY byte string that is valid
   UTF-8: unless the slice loop stops with "trailing characters" after a scalar
   document (the known class K-C02-json-adjacent-scalars), slice input and reader
   input translate the same documents with the same events and end the same way;
   and always, what the slice loop translated is a prefix of what the reader
   loop translated. *)
From XtModel Require Import Utf8 JsonModel JsonProofs.

Theorem C02_json_slice_reader_agree :
  forall inp : bytes, utf8_valid inp = true ->
    (~ adjacent_scalars inp -> json_slice inp = json_reader inp) /\
    prefix_of (jm_output (json_slice inp)) (jm_output (json_reader inp)).
Proof. exact json_slice_reader_agree. Qed.

(* Input that is not valid UTF-8 is refused by the slice path before it writes
   anything, so its output is a prefix of the reader path's. *)
Theorem C02_json_invalid_utf8_prefix :
  forall inp : bytes, utf8_valid inp = false ->
    json_slice inp = ([], JFail JUtf8) /\ prefix_of (jm_output (json_slice inp)) (jm_output (json_reader inp)).
Proof. exact json_invalid_utf8_prefix. Qed.

(* The known class is inhabited and the property does fail on its witness
   (truefalse: the slice path fails, the reader path translates two documents):
   the formal record of the finding. *)
Theorem C02_json_known_class_witness :
  utf8_valid truefalse = true /\ adjacent_scalars truefalse /\
  json_slice truefalse = ([], JFail JTrailing) /\
  json_reader truefalse = ([[EBool true]; [EBool false]], JDone).
Proof. exact adjacent_scalars_witness. Qed.

(* For EVERY byte string, valid UTF-8 or not (theories/JsonUtf8Proofs.v: what
   the reader loop accepts is valid UTF-8, so the slice path's up-front check
   never makes the verdicts differ): outside the known class the two JSON paths
   give the same verdict, and on success the same documents with the same
   events; always, the slice path's output is a prefix of the reader path's. *)
From XtModel Require Import JsonUtf8Proofs.

Theorem C02_json_agree_all :
  forall inp : bytes,
    (~ adjacent_scalars inp ->
       jm_ok (json_slice inp) = jm_ok (json_reader inp) /\
       (jm_ok (json_slice inp) = true -> json_slice inp = json_reader inp)) /\
    prefix_of (jm_output (json_slice inp)) (jm_output (json_reader inp)).
Proof. exact json_agree_all. Qed.

(* The guard of the in-memory UTF-8 YAML path (chunker::has_document) against
   the reader path's chunker, on the parser's event list: the in-memory path
   returns without output exactly when the chunker has nothing to yield (the
   parser reaches STREAM-END with no DOCUMENT-START and no error before it), and
   whenever the chunker yields anything - a document or the parser's error - the
   guard lets the stream through to the parser.  ([no_end_before_start]: no
   DOCUMENT-END before the first DOCUMENT-START, which libyaml guarantees and
   the correspondence check observes.) *)
From XtModel Require Import ChunkerModel ChunkerProofs.

Theorem C02_yaml_guard_no_document :
  forall (data : bytes) (evs : list yev),
    has_document evs = false -> no_end_before_start evs -> chunker data evs = [].
Proof. exact no_document_no_chunks. Qed.

Theorem C02_yaml_guard_lets_documents_through :
  forall (data : bytes) (evs : list yev),
    no_end_before_start evs -> chunker data evs <> [] -> has_document evs = true.
Proof. exact chunks_imply_document. Qed.

(* TOML input (src/toml.rs `transcode`): the handle is turned into one owned byte
   string, which is checked as UTF-8, parsed and written out.  Whatever those
   steps compute ([parse]: any function of the text), they are applied to exactly
   the input bytes [d] in both supply modes - a reader under any read schedule and
   a slice, with the format named or after any detection: for TOML the result
   cannot depend on how the bytes were supplied, with no premise about the toml
   crate. *)
From XtModel Require Import TomlInputProofs.

Theorem C02_toml_same_text_both_modes :
  forall (R : Type) (parse : bytes -> R) (io : ioerr -> R)
         (sched : nat -> nat) (cutoff : nat) (toml_parses : bytes -> bool) (tm tj ty : trial) (d : bytes),
    toml_transcode parse io (fst (fst (detect_reader sched cutoff toml_parses tm tj ty d None))) = parse d /\
    toml_transcode parse io (fst (fst (detect sched cutoff toml_parses tm tj ty (start (HSlice d))))) = parse d /\
    toml_transcode parse io (from_reader d None) = parse d /\
    toml_transcode parse io (HSlice d) = parse d.
Proof. exact @toml_same_text_both_modes. Qed.
