(* C04 — Totality: no panic, abort, stack overflow or hang on any input.
   Pinned statements only: the panic-freedom and termination theorems of every
   xt-owned component, each for all inputs.  Proofs are in the theory files
   named beside each statement. *)
From XtModel Require Import Base Utf8 InputModel InputProofs TotalityProofs MsgpackModel MsgpackProofs
  TranscodeModel TranscodeProofs ChunkerModel ChunkerProofs IoModel IoProofs CliModel CliProofs.

(* src/msgpack.rs: the size calculator never indexes out of range, never
   underflows its depth budget, never reports more than the input holds, and
   terminates, for every byte string and depth limit (MsgpackProofs.v). *)
Theorem C04_msgpack_size_no_panic :
  forall (inp : bytes) (dl : nat), next_value_size inp dl <> SzPanic.
Proof. exact next_value_size_no_panic. Qed.

Theorem C04_msgpack_size_in_bounds :
  forall (inp : bytes) (dl : nat) (n : N),
    next_value_size inp dl = SzOk n -> (n <= len_n inp)%N /\ (inp <> [] -> 1 <= n)%N.
Proof. exact next_value_size_in_bounds. Qed.

Theorem C04_msgpack_size_terminates :
  forall (inp : bytes) (dl : nat), next_value_size inp dl <> SzOutOfFuel.
Proof. exact next_value_size_terminates. Qed.

(* src/transcode/stream.rs: for every deserializer script and every serializer
   failure schedule the transcoder returns Ok or an error; the .unwrap() on the
   captured serializer error and take_parent() never panic (TranscodeProofs.v). *)
Theorem C04_transcoder_no_panic :
  forall (fails : nat -> option nat) (sc : dscript) (site : nat),
    snd (transcode fails false sc) <> OutPanic site.
Proof. exact transcode_no_panic. Qed.

(* src/input.rs: the capture reader's len - offset and buf[..prefix_size] are in
   range in every reachable state (TotalityProofs.v). *)
Theorem C04_capture_index_safe :
  forall (sched : nat -> nat) (d : bytes) (flt : option nat) (ops : list op) (st : pstate) (os : list obs),
    run sched (start (from_reader d flt)) ops = (st, os) ->
    match fst st with
    | HReader c => pos c <= length (prefix c) /\ length (prefix c) <= length d
    | HSlice _ => True
    end.
Proof. exact capture_index_safe. Qed.

(* src/yaml/chunker.rs: under libyaml's contract on offsets (monotone, within
   what was pulled, on UTF-8 boundaries) offset subtraction, split_off and
   from_utf8().unwrap() never panic; as many chunks as documents (ChunkerProofs.v). *)
Theorem C04_chunker_no_panic :
  forall (data : bytes) (ds : list docspan) (evs : list yev),
    renders ds evs -> spans_wf data 0 ds ->
    length (chunker data evs) = length ds /\ forall i, In i (chunker data evs) -> exists c, i = IDoc c.
Proof. exact chunker_total. Qed.

(* src/main.rs + lexopt: argument parsing terminates on every argument vector (CliProofs.v). *)
Theorem C04_parse_args_total : forall argv : list bytes, parse_args argv <> POutOfFuel.
Proof. exact parse_args_total. Qed.

(* write_all over any short-writing / failing writer ends in Ok or the writer's
   error: never WriteZero, never a spin (IoProofs.v). *)
Theorem C04_write_all_total :
  forall (wsched : nat -> nat) (s : wsink) (buf : bytes),
    sink_ok s -> snd (put wsched s buf) = WOk \/ snd (put wsched s buf) = WErr.
Proof.
  intros wsched s buf H. destruct (put_spec wsched s buf H) as (_ & _ & _ & [[E _]|[E _]]); [now left|now right].
Qed.

(* serde_json's reader as xt drives it, and both JSON document loops, end with
   a verdict for every byte string (no fuel exhaustion: the model's termination
   argument), and a successfully read value consumes input. *)
From XtModel Require Import JsonModel JsonProofs.

Theorem C04_json_value_total :
  forall inp : bytes, lt_res (snd (json_value inp)) (length inp).
Proof. exact json_value_total. Qed.

Theorem C04_json_loops_total :
  forall inp : bytes, snd (json_slice inp) <> JFail JOutOfFuel /\ snd (json_reader inp) <> JFail JOutOfFuel.
Proof. exact json_loops_total. Qed.
