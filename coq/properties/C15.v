(* C15 — Output of earlier inputs survives a later failure.
   Pinned statements only; proofs are in theories/CliProofs.v. *)
From XtModel Require Import Base FormatsModel IoModel IoProofs CliModel CliProofs.

(* For every list of inputs in which [i] is the first that fails (cannot be
   opened, is a second use of standard input, or does not translate), whatever
   follows it, with a stdout that does not fail and accepts data in any pattern
   of short writes: xt exits with status 1 and standard output holds the
   complete translations of all earlier inputs, in order, followed at most by
   the beginning of the failing input's translation.  Nothing of a finished
   input is left in the 8 KiB buffer that process::exit discards. *)
Theorem C15_earlier_output_survives :
  forall (wsched : nat -> nat) (bcap : nat), 0 < bcap ->
  forall (pre : list inp) (i : inp) (post : list inp) (w : bufw) (su : bool) (op : list bytes) (sr : nat),
    dev_ok (bdev w) -> bbuf w = [] -> wfault (dsink (bdev w)) = None ->
    first_failure su pre i ->
    let o := main_loop wsched bcap w su op sr (pre ++ i :: post) in
    o_status o = Exit 1 /\
    prefix_of (dacc (bdev w) ++ all_out pre) (o_stdout o) /\
    prefix_of (o_stdout o) (dacc (bdev w) ++ all_out pre ++ concat (i_trace i)).
Proof. exact earlier_output_survives. Qed.

(* At a successful exit every byte of output has been written. *)
Theorem C15_success_complete :
  forall (wsched : nat -> nat) (bcap : nat), 0 < bcap ->
  forall (ins : list inp) (w : bufw) (su : bool) (op : list bytes) (sr : nat),
    dev_ok (bdev w) -> bbuf w = [] ->
    o_status (main_loop wsched bcap w su op sr ins) = Exit 0 ->
    o_stdout (main_loop wsched bcap w su op sr ins) = dacc (bdev w) ++ all_out ins.
Proof.
  intros wsched bcap Hb ins w su op sr Hok Hbuf H0.
  destruct (main_loop_facts wsched bcap Hb ins w su op sr Hok Hbuf) as [_ _ _ E _ _ _]. now destruct (E H0).
Qed.

(* The per-input flush is what the guarantee rests on: the same loop without it
   loses the first input's output when the second fails (8 KiB buffer, two
   3-byte inputs). *)
Example C15_needs_the_flush :
  let i1 := {| i_path := [97]%N; i_open := OpenData; i_trace := [[1; 2; 3]%N]; i_ok := true |} in
  let i2 := {| i_path := [98]%N; i_open := OpenErr; i_trace := []; i_ok := false |} in
  let d := {| dsink := {| acc := []; wfault := None |}; dbroken := false |} in
  o_stdout (main_loop (fun _ => 0) 8 (fresh d) false [] 0 [i1; i2]) = [1; 2; 3]%N /\
  acc (dsink (bdev (fst (bw_run (fun _ => 0) 8 (fresh d) (i_trace i1))))) = [].
Proof. vm_compute. split; reflexivity. Qed.
