(* C13 — CLI exit status and stream discipline.
   Pinned statements only; proofs are in theories/CliProofs.v. *)
From XtModel Require Import Base FormatsModel IoModel IoProofs CliModel CliProofs.

(* Exit status 2 exactly when the command line is invalid (for every argument
   vector, stdout kind, stdout device and environment); then nothing is written
   to standard output, no input is opened or read, and standard error carries
   the usage error. *)
Theorem C13_exit2_iff_usage :
  forall (wsched : nat -> nat) (bcap : nat), 0 < bcap ->
  forall (env : cli -> list bytes -> list inp) (help : exit0 -> bytes)
         (argv : list bytes) (kind : stdout_kind) (d : device),
    dev_ok d ->
    let o := xt_main wsched bcap argv kind d env help in
    (o_status o = Exit 2 <-> exists e, parse_args argv = PUsage e) /\
    (o_status o = Exit 2 ->
       o_stdout o = dacc d /\ o_opened o = [] /\ o_stdin_reads o = 0 /\ o_stderr o = ErrUsage).
Proof. exact exit2_iff_usage. Qed.

(* Argument parsing always terminates in parsed arguments, a usage error or a
   help/version exit. *)
Theorem C13_parse_args_total : forall argv : list bytes, parse_args argv <> POutOfFuel.
Proof. exact parse_args_total. Qed.

(* Once the arguments are valid, for every list of inputs and every stdout
   device: the status is 0, 1 or SIGPIPE; standard output only ever carries
   translated data, in order (a prefix of the concatenated translations);
   status 0 means every input opened and translated and every byte of output
   was written, with nothing on standard error; status 1 always comes with an
   'xt error' line; SIGPIPE comes with nothing on standard error. *)
Theorem C13_run_facts :
  forall (wsched : nat -> nat) (bcap : nat), 0 < bcap ->
  forall (c : cli) (kind : stdout_kind) (d : device) (ins : list inp),
    dev_ok d -> (kind = KTty -> c_to c <> Some Msgpack) ->
    loop_facts (fresh d) ins (run_cli wsched bcap c kind d ins).
Proof. exact run_cli_facts. Qed.

(* MessagePack is never written to a terminal. *)
Theorem C13_no_msgpack_on_tty :
  forall (wsched : nat -> nat) (bcap : nat) (c : cli) (d : device) (ins : list inp),
    c_to c = Some Msgpack ->
    let o := run_cli wsched bcap c KTty d ins in
    o_status o = Exit 1 /\ o_stdout o = dacc d /\ o_opened o = [] /\ o_stderr o = ErrPlain.
Proof. exact no_msgpack_on_tty. Qed.
