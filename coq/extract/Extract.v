(* Extraction of the executable model to OCaml.  ExtrOcamlBasic only: bool,
   option, unit, list, prod, sumbool and sumor map to OCaml's own; nat, N, Z and
   positive stay the Coq datatypes.  No Extract Constant directive is used. *)
Require Extraction.
Require Import ExtrOcamlBasic.
From XtModel Require Import Base InputModel Utf8 UtfModel TranscodeModel FidelityModel ChunkerModel MemModel FormatsModel IoModel DetectModel CliModel MsgpackModel JsonModel JsonWriteModel JsonFloatModel JsonFloat32Model JsonTrialModel TomlAcceptModel.

Extraction Language OCaml.
Extraction "model.ml"
  run_reader run_slice
  utf8_valid utf8_encode is_scalar
  detect encoder_new encoder_from_reader read_seq
  transcode value_roundtrip calls_of
  translate_history translate_history_w
  parse_args resolve_from extension_format run_cli
  detect_format start
  chunker has_document
  mrun m0 mclean read_handler
  next_value_size transcode_slice transcode_reader mm_output mm_ok msgpack_matches DEPTH_LIMIT
  json_slice json_reader jm_output jm_ok f64_of_decimal json_to_json msgpack_to_json msgpack_toml_verdict
  json_f64 ryu_ok f_finite json_to_json_f msgpack_to_json_f
  json_trial_slice json_trial_reader json_f32 json_f32_found.
