//! C02/C04: every token sequence up to a length bound over an alphabet per
//! source format, translated from a slice and from a reader with short reads;
//! verdict, output and prefix relation are compared. API level: no hooks.
use std::collections::BTreeMap;
use std::panic::{catch_unwind, AssertUnwindSafe};
use std::sync::atomic::{AtomicU64, Ordering};
use std::sync::Mutex;

use crate::util::*;

pub const JSON_TOKENS: [&[u8]; 14] =
	[b"{", b"}", b"[", b"]", b",", b":", b"\"a\"", b"1", b"-", b"true", b"null", b" ", b"\n", b"0.5"];
pub const YAML_TOKENS: [&[u8]; 24] = [
	b"a", b"1", b":", b" ", b"\n", b"-", b"- ", b"[", b"]", b"{", b"}", b",", b"#", b"\"", b"'", b"|", b"&a", b"*a", b"---",
	b"...", b"  ", b"? ", b"!", b"~",
];
pub const MSGPACK_TOKENS: [&[u8]; 30] = [
	&[0x0a], &[0x0d], &[0x20], &[0x00], &[0x01], &[0x7f], &[0x80], &[0x81], &[0x82], &[0x90], &[0x91], &[0x92], &[0xa0], &[0xa1], &[0xc0], &[0xc1],
	&[0xc3], &[0xc4], &[0xc7], &[0xcc], &[0xcd], &[0xd0], &[0xd4], &[0xd9], &[0xdc], &[0xdd], &[0xde], &[0xdf], &[0xe0],
	&[0xff],
];

/// Progress counter and the case being run, for the watchdog.
static BEAT: AtomicU64 = AtomicU64::new(0);
static CURRENT: Mutex<String> = Mutex::new(String::new());

/// Aborts the process when one case makes no progress for `secs` seconds,
/// naming the case: a hang must be reported with its input, not waited out.
pub fn start_watchdog(secs: u64) {
	std::thread::spawn(move || {
		let mut last = BEAT.load(Ordering::Relaxed);
		let mut idle = 0;
		loop {
			std::thread::sleep(std::time::Duration::from_secs(1));
			let now = BEAT.load(Ordering::Relaxed);
			if now == last {
				idle += 1;
				if idle >= secs {
					let cur = CURRENT.lock().map(|c| c.clone()).unwrap_or_default();
					println!("{}", serde_json::json!({"hang": cur, "after_cases": now}));
					std::process::exit(3);
				}
			} else {
				idle = 0;
				last = now;
			}
		}
	});
}

/// The outcome of one translation: verdict, bytes written, error text.
pub fn translate(data: &[u8], reader: Option<Sched>, from: Option<xt::Format>, to: xt::Format) -> (u8, Vec<u8>, String) {
	let mut w = FaultWriter::new();
	let res = catch_unwind(AssertUnwindSafe(|| match reader {
		Some(s) => xt::translate_reader(SchedReader::new(data, s, None), from, to, &mut w),
		None => xt::translate_slice(data, from, to, &mut w),
	}));
	match res {
		Ok(Ok(())) => (0, w.accepted, String::new()),
		Ok(Err(e)) => (1, w.accepted, e.to_string()),
		Err(_) => (2, w.accepted, "panic".into()),
	}
}

fn is_prefix(a: &[u8], b: &[u8]) -> bool {
	a.len() <= b.len() && &b[..a.len()] == a
}

/// Known class K-C02-json-adjacent-scalars: outside string literals, a number
/// or a literal name is immediately followed by a byte that neither ends the
/// text nor is whitespace or structural.
pub fn json_adjacent_scalars(data: &[u8]) -> bool {
	let mut i = 0;
	let n = data.len();
	while i < n {
		let b = data[i];
		if b == b'"' {
			i += 1;
			while i < n && data[i] != b'"' {
				if data[i] == b'\\' {
					i += 1;
				}
				i += 1;
			}
			i += 1;
			continue;
		}
		let start = i;
		let mut end = None;
		if b == b'-' || b.is_ascii_digit() {
			// JSON number grammar
			let mut j = i;
			if data[j] == b'-' {
				j += 1;
			}
			if j < n && data[j] == b'0' {
				j += 1;
			} else if j < n && data[j].is_ascii_digit() {
				while j < n && data[j].is_ascii_digit() {
					j += 1;
				}
			} else {
				i += 1;
				continue;
			}
			if j + 1 < n && data[j] == b'.' && data[j + 1].is_ascii_digit() {
				j += 1;
				while j < n && data[j].is_ascii_digit() {
					j += 1;
				}
			}
			if j < n && (data[j] == b'e' || data[j] == b'E') {
				let mut k = j + 1;
				if k < n && (data[k] == b'+' || data[k] == b'-') {
					k += 1;
				}
				if k < n && data[k].is_ascii_digit() {
					while k < n && data[k].is_ascii_digit() {
						k += 1;
					}
					j = k;
				}
			}
			end = Some(j);
		} else {
			for lit in [&b"true"[..], b"false", b"null"] {
				if data[i..].starts_with(lit) {
					end = Some(i + lit.len());
				}
			}
		}
		match end {
			Some(j) => {
				if j < n && !b" \t\n\r\"[]{},:".contains(&data[j]) {
					return true;
				}
				i = j.max(start + 1);
			}
			None => i += 1,
		}
	}
	false
}

pub struct Stats {
	pub cases: usize,
	pub by_format: BTreeMap<String, usize>,
	pub verdicts: BTreeMap<String, usize>,
	pub known_hits: usize,
	pub failures: Vec<String>,
	pub panics: Vec<String>,
	pub nontrivial: usize,
	pub max_len: BTreeMap<String, usize>,
}

fn check(st: &mut Stats, fmt_name: &str, from: xt::Format, to: xt::Format, data: &[u8], rng: &mut Rng) {
	check_with(st, fmt_name, from, to, data, rng, None)
}

fn check_with(st: &mut Stats, fmt_name: &str, from: xt::Format, to: xt::Format, data: &[u8], rng: &mut Rng, forced: Option<Sched>) {
	if st.cases % 64 == 0 {
		BEAT.fetch_add(1, Ordering::Relaxed);
	}
	if let Ok(mut c) = CURRENT.try_lock() {
		c.clear();
		c.push_str(fmt_name);
		c.push(' ');
		c.push_str(&hex(data));
	}
	let s = translate(data, None, Some(from), to);
	let sched = match forced {
		Some(f) => f,
		None => match rng.below(3) {
			0 => Sched::Fixed(1),
			1 => Sched::Fixed(2 + rng.below(3) as usize),
			_ => Sched::Random { seed: rng.next(), max: 3 },
		},
	};
	let r = translate(data, Some(sched.clone()), Some(from), to);
	st.cases += 1;
	*st.by_format.entry(fmt_name.to_string()).or_default() += 1;
	let key = format!("{}{}", ["ok", "err", "panic"][s.0 as usize], ["ok", "err", "panic"][r.0 as usize]);
	*st.verdicts.entry(key).or_default() += 1;
	if s.0 == 0 && !s.1.is_empty() {
		st.nontrivial += 1;
	}
	if s.0 == 2 || r.0 == 2 {
		if st.panics.len() < 20 {
			st.panics.push(format!("{} {}", fmt_name, hex(data)));
		}
		return;
	}
	let same = s.0 == r.0 && if s.0 == 0 { s.1 == r.1 } else { is_prefix(&s.1, &r.1) || is_prefix(&r.1, &s.1) };
	if !same {
		// the listed class by its signature, not merely by the look of the input: the slice path rejects with "trailing
		// characters" what the reader path reads on
		if fmt_name == "json" && json_adjacent_scalars(data) && s.0 == 1 && s.2.contains("trailing characters") {
			st.known_hits += 1;
			return;
		}
		if st.failures.len() < 40 {
			st.failures.push(format!(
				"{} {} slice={}:{}:{} reader={}:{}:{}",
				fmt_name,
				hex(data),
				s.0,
				hex(&s.1),
				s.2.replace(' ', "_"),
				r.0,
				hex(&r.1),
				r.2.replace(' ', "_")
			));
		}
	}
}

fn enumerate(st: &mut Stats, name: &str, toks: &[&[u8]], max_len: usize, from: xt::Format, to: xt::Format, rng: &mut Rng) {
	enumerate_prefixed(st, name, b"", toks, max_len, from, to, rng)
}

/// Every token sequence behind a fixed prefix (a byte order mark: a multi-byte character at offset 0, which a reader may
/// deliver in pieces).  With a prefix each sequence is read with 1-byte and with 2-byte reads instead of one drawn schedule.
fn enumerate_prefixed(st: &mut Stats, name: &str, prefix: &[u8], toks: &[&[u8]], max_len: usize, from: xt::Format, to: xt::Format, rng: &mut Rng) {
	st.max_len.insert(name.to_string(), max_len);
	let k = toks.len();
	let mut idx: Vec<usize> = vec![];
	// lengths 0..=max_len, odometer per length
	for len in 0..=max_len {
		idx.clear();
		idx.resize(len, 0);
		loop {
			let mut data = prefix.to_vec();
			for &i in &idx {
				data.extend_from_slice(toks[i]);
			}
			if prefix.is_empty() {
				check(st, name, from, to, &data, rng);
			} else {
				check_with(st, name, from, to, &data, rng, Some(Sched::Fixed(1)));
				check_with(st, name, from, to, &data, rng, Some(Sched::Fixed(2)));
			}
			// next
			let mut p = len;
			loop {
				if p == 0 {
					break;
				}
				p -= 1;
				idx[p] += 1;
				if idx[p] < k {
					break;
				}
				idx[p] = 0;
				if p == 0 {
					p = usize::MAX;
					break;
				}
			}
			if len == 0 || p == usize::MAX {
				break;
			}
		}
	}
}

pub fn run(seed: u64, tier: &str) -> Stats {
	let mut st = Stats {
		cases: 0,
		by_format: BTreeMap::new(),
		verdicts: BTreeMap::new(),
		known_hits: 0,
		failures: vec![],
		panics: vec![],
		nontrivial: 0,
		max_len: BTreeMap::new(),
	};
	let mut rng = Rng::new(seed ^ 0x7031);
	start_watchdog(15);
	let (lj, ly, lm) = if tier == "thorough" { (6, 5, 5) } else { (5, 4, 4) };
	enumerate(&mut st, "json", &JSON_TOKENS, lj, xt::Format::Json, xt::Format::Msgpack, &mut rng);
	enumerate(&mut st, "yaml", &YAML_TOKENS, ly, xt::Format::Yaml, xt::Format::Json, &mut rng);
	enumerate(&mut st, "msgpack", &MSGPACK_TOKENS, lm, xt::Format::Msgpack, xt::Format::Json, &mut rng);
	// the same alphabets behind a UTF-8 byte order mark
	enumerate_prefixed(&mut st, "json+bom", b"\xef\xbb\xbf", &JSON_TOKENS, 3, xt::Format::Json, xt::Format::Msgpack, &mut rng);
	enumerate_prefixed(&mut st, "yaml+bom", b"\xef\xbb\xbf", &YAML_TOKENS, 3, xt::Format::Yaml, xt::Format::Json, &mut rng);
	st
}
