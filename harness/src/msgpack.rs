//! C18/C02/C03/C04 (MessagePack): the size calculator, the two document loops
//! and the detection trial against the Gallina model (MsgpackModel.v).
use std::collections::BTreeMap;
use std::io::Write;
use std::panic::{catch_unwind, AssertUnwindSafe};

use crate::util::*;

const ALPHABET: [u8; 30] = [
	0x0a, 0x0d, 0x20, 0x00, 0x01, 0x7f, 0x80, 0x81, 0x82, 0x90, 0x91, 0x92, 0xa0, 0xa1, 0xc0, 0xc1, 0xc3, 0xc4, 0xc7, 0xcc, 0xcd,
	0xd0, 0xd4, 0xd9, 0xdc, 0xdd, 0xde, 0xdf, 0xe0, 0xff,
];

pub fn nest(depth: usize, shape: &str, inner: &[u8], rng: &mut Rng) -> Vec<u8> {
	let mut out = vec![];
	let mut tail: Vec<u8> = vec![];
	for i in 0..depth {
		let kind = match shape {
			"alt" => if i % 2 == 0 { "array" } else { "map" },
			"random" => *rng.pick(&["array", "map", "mapkey", "array16", "map32"]),
			s => s,
		};
		match kind {
			"array" => out.push(0x91),
			"array16" => out.extend_from_slice(&[0xdc, 0x00, 0x01]),
			"map" => out.extend_from_slice(&[0x81, 0xa1, b'k']),
			"map32" => out.extend_from_slice(&[0xdf, 0, 0, 0, 1, 0x01]),
			_ => {
				// collection in key position: {<nested>: 1}
				out.push(0x81);
				tail.insert(0, 0x01);
			}
		}
	}
	out.extend_from_slice(inner);
	out.extend_from_slice(&tail);
	out
}

fn run_nvs(data: &[u8], depth: usize) -> String {
	match catch_unwind(AssertUnwindSafe(|| xt::verif::msgpack_next_value_size(data, depth))) {
		Ok(Ok(n)) => format!("ok:{n}"),
		Ok(Err(0)) => "err:truncated".into(),
		Ok(Err(1)) => "err:marker".into(),
		Ok(Err(_)) => "err:depth".into(),
		Err(_) => "panic".into(),
	}
}

pub fn run_transcode(data: &[u8], reader: bool, sched: Sched, to: xt::Format) -> (String, Vec<u8>, String) {
	let mut w = FaultWriter::new();
	let res = catch_unwind(AssertUnwindSafe(|| {
		if reader {
			xt::translate_reader(SchedReader::new(data, sched, None), Some(xt::Format::Msgpack), to, &mut w)
		} else {
			xt::translate_slice(data, Some(xt::Format::Msgpack), to, &mut w)
		}
	}));
	match res {
		Ok(Ok(())) => ("ok".into(), w.accepted, String::new()),
		Ok(Err(e)) => ("err".into(), w.accepted, e.to_string()),
		Err(_) => ("panic".into(), w.accepted, String::new()),
	}
}

fn count_docs(out: &[u8]) -> usize {
	// Number of complete top-level values in xt's MessagePack output, by the
	// implementation's own size calculator (used only for the docs: field).
	let mut rest = out;
	let mut n = 0;
	while !rest.is_empty() {
		match xt::verif::msgpack_next_value_size(rest, usize::MAX) {
			Ok(k) if k > 0 && k <= rest.len() => {
				rest = &rest[k..];
				n += 1;
			}
			_ => break,
		}
	}
	n
}

pub struct Stats {
	pub cases: usize,
	pub kinds: BTreeMap<String, usize>,
	pub verdicts: BTreeMap<String, usize>,
	pub oracle_failures: Vec<String>,
	pub samples: Vec<String>,
	pub nontrivial: usize,
	pub exhaustive_len: usize,
}

pub fn generate_and_run(seed: u64, tier: &str, cases_w: &mut dyn Write, impl_w: &mut dyn Write) -> Stats {
	let mut st = Stats {
		cases: 0,
		kinds: BTreeMap::new(),
		verdicts: BTreeMap::new(),
		oracle_failures: vec![],
		samples: vec![],
		nontrivial: 0,
		exhaustive_len: 0,
	};
	let mut rng = Rng::new(seed ^ 0x6d70);
	let mut inputs: Vec<(Vec<u8>, &'static str)> = vec![];

	// (a) every byte string over the alphabet up to a length bound
	let max_len = if tier == "thorough" { 4 } else { 3 };
	st.exhaustive_len = max_len;
	let mut frontier: Vec<Vec<u8>> = vec![vec![]];
	inputs.push((vec![], "exhaustive"));
	for _ in 0..max_len {
		let mut next = vec![];
		for p in &frontier {
			for b in ALPHABET {
				let mut q = p.clone();
				q.push(b);
				next.push(q);
			}
		}
		for q in &next {
			inputs.push((q.clone(), "exhaustive"));
		}
		frontier = next;
	}
	// (b) all 256 single markers followed by filler
	for m in 0..=255u8 {
		for fill in [0usize, 1, 2, 3, 4, 5, 8, 9, 17, 18, 40] {
			let mut v = vec![m];
			v.extend(std::iter::repeat(0x01).take(fill));
			inputs.push((v, "marker"));
		}
	}
	// (c) random well-formed values, their truncations and mutations, streams
	let n_rand = if tier == "thorough" { 60_000 } else { 6_000 };
	for _ in 0..n_rand {
		let mut doc = vec![];
		let ndocs = 1 + rng.below(3);
		for _ in 0..ndocs {
			gen_value(&mut rng, 4, &mut doc);
		}
		match rng.below(4) {
			0 => {}
			1 => {
				let k = rng.below(doc.len() as u64 + 1) as usize;
				doc.truncate(k);
			}
			2 => {
				if !doc.is_empty() {
					let i = rng.below(doc.len() as u64) as usize;
					doc[i] = *rng.pick(&ALPHABET);
				}
			}
			_ => {
				if !doc.is_empty() {
					let i = rng.below(doc.len() as u64) as usize;
					doc.insert(i, rng.below(256) as u8);
				}
			}
		}
		inputs.push((doc, "random"));
	}
	// (d) nesting around the limit, every shape
	let window: Vec<usize> = if tier == "thorough" { (1015..=1033).collect() } else { vec![1021, 1022, 1023, 1024, 1025, 1026] };
	for &d in &window {
		for shape in ["array", "map", "mapkey", "alt", "random", "array16", "map32"] {
			for inner in [&[0xc0u8][..], &[0x90], &[0x80], &[0xa1, b'x'], &[0xd4, 1, 2], &[]] {
				inputs.push((nest(d, shape, inner, &mut rng), "nesting"));
			}
		}
	}
	for d in [2000usize, 5000] {
		inputs.push((nest(d, "array", &[0xc0], &mut rng), "nesting"));
	}

	let mut id = 0usize;
	let emit = |case: String, res: String, cases_w: &mut dyn Write, impl_w: &mut dyn Write| {
		writeln!(cases_w, "{case}").unwrap();
		writeln!(impl_w, "{res}").unwrap();
	};
	for (data, kind) in &inputs {
		*st.kinds.entry(kind.to_string()).or_insert(0) += 1;
		let h = hex(data);
		// size calculator at the real limit and at small limits
		let depths: Vec<usize> = if *kind == "nesting" { vec![1024] } else { vec![1024, 1, 2, 3] };
		for d in depths {
			emit(format!("MS {id} {h} {d}"), format!("{id} {}", run_nvs(data, d)), cases_w, impl_w);
			id += 1;
		}
		// document loops, MessagePack target: verdict, documents, writer bytes
		let (vs, outs, es) = run_transcode(data, false, Sched::Full, xt::Format::Msgpack);
		let sched = match rng.below(3) {
			0 => Sched::Fixed(1),
			1 => Sched::Random { seed: rng.next(), max: 5 },
			_ => Sched::Full,
		};
		let (vr, outr, er) = run_transcode(data, true, sched, xt::Format::Msgpack);
		emit(format!("MT {id} S {h}"), format!("{id} {vs} docs:{} {}", count_docs_complete(&outs, &vs, data), hex(&outs)), cases_w, impl_w);
		id += 1;
		emit(format!("MT {id} R {h}"), format!("{id} {vr} docs:{} {}", count_docs_complete(&outr, &vr, data), hex(&outr)), cases_w, impl_w);
		id += 1;
		*st.verdicts.entry(format!("slice:{vs}")).or_insert(0) += 1;
		*st.verdicts.entry(format!("reader:{vr}")).or_insert(0) += 1;
		if vs == "ok" && !data.is_empty() {
			st.nontrivial += 1;
		}
		// detection trial
		let det = match catch_unwind(AssertUnwindSafe(|| xt::verif::detect_slice(data))) {
			Ok(Ok(Some(xt::Format::Msgpack))) => "match",
			Ok(Ok(_)) => "nomatch",
			Ok(Err(_)) => "ioerr",
			Err(_) => "panic",
		};
		emit(format!("MD {id} {h}"), format!("{id} {det}"), cases_w, impl_w);
		id += 1;

		// The property's own oracle (C02/C18/C04 for MessagePack): same verdict in
		// both modes, equal output on success, prefix-comparable on failure, no panic.
		let mut why = None;
		if vs == "panic" || vr == "panic" {
			why = Some("panic".to_string());
		} else if vs != vr {
			why = Some(format!("verdict differs: slice {vs} ({es}) vs reader {vr} ({er})"));
		} else if vs == "ok" && outs != outr {
			why = Some("outputs differ on success".to_string());
		} else if !(outs.starts_with(&outr) || outr.starts_with(&outs)) {
			why = Some("partial outputs are not prefix-comparable".to_string());
		}
		if let Some(w) = why {
			if st.oracle_failures.len() < 50 {
				st.oracle_failures.push(format!("input {h}: {w}"));
			}
		}
		if st.samples.len() < 4 && (id % 40009 < 7) {
			st.samples.push(format!("MT S {h} => {vs} {}", hex(&outs)));
		}
	}
	st.cases = id;
	st
}

/// Number of complete documents in the output (for a MessagePack target the
/// output is a sequence of values; the last may be partial after a failure).
fn count_docs_complete(out: &[u8], _verdict: &str, _input: &[u8]) -> usize {
	count_docs(out)
}

/// A random well-formed MessagePack value appended to `out`.
pub fn gen_value(rng: &mut Rng, depth: usize, out: &mut Vec<u8>) {
	let k = if depth == 0 { rng.below(9) } else { rng.below(13) };
	match k {
		0 => out.push(rng.below(128) as u8),
		1 => out.push(0xe0 + rng.below(32) as u8),
		2 => out.push(*rng.pick(&[0xc0, 0xc2, 0xc3])),
		3 => {
			let w = *rng.pick(&[(0xccu8, 1usize), (0xcd, 2), (0xce, 4), (0xcf, 8), (0xd0, 1), (0xd1, 2), (0xd2, 4), (0xd3, 8), (0xca, 4), (0xcb, 8)]);
			out.push(w.0);
			for _ in 0..w.1 {
				out.push(match rng.below(4) { 0 => 0, 1 => 0xff, 2 => 0x80, _ => rng.below(256) as u8 });
			}
		}
		4 | 5 => {
			let n = rng.below(40) as usize;
			let s: Vec<u8> = if rng.chance(1, 6) {
				(0..n).map(|_| rng.below(256) as u8).collect()
			} else {
				(0..n).map(|_| b'a' + rng.below(26) as u8).collect()
			};
			match rng.below(4) {
				0 if n < 32 => out.push(0xa0 | n as u8),
				1 => out.extend_from_slice(&[0xd9, n as u8]),
				2 => out.extend_from_slice(&[0xda, 0, n as u8]),
				_ => out.extend_from_slice(&[0xdb, 0, 0, 0, n as u8]),
			}
			out.extend_from_slice(&s);
		}
		6 => {
			let n = rng.below(20) as usize;
			match rng.below(3) {
				0 => out.extend_from_slice(&[0xc4, n as u8]),
				1 => out.extend_from_slice(&[0xc5, 0, n as u8]),
				_ => out.extend_from_slice(&[0xc6, 0, 0, 0, n as u8]),
			}
			for _ in 0..n {
				out.push(rng.below(256) as u8);
			}
		}
		7 => {
			// ext
			match rng.below(4) {
				0 => out.extend_from_slice(&[0xd4, 5, 1]),
				1 => out.extend_from_slice(&[0xd6, 5, 1, 2, 3, 4]),
				2 => out.extend_from_slice(&[0xc7, 3, 9, 1, 2, 3]),
				_ => out.extend_from_slice(&[0xc8, 0, 2, 9, 1, 2]),
			}
		}
		8 => out.push(0x90 | 0),
		9 | 10 => {
			let n = rng.below(5) as usize;
			match rng.below(3) {
				0 => out.push(0x90 | n as u8),
				1 => out.extend_from_slice(&[0xdc, 0, n as u8]),
				_ => out.extend_from_slice(&[0xdd, 0, 0, 0, n as u8]),
			}
			for _ in 0..n {
				gen_value(rng, depth - 1, out);
			}
		}
		_ => {
			let n = rng.below(4) as usize;
			match rng.below(3) {
				0 => out.push(0x80 | n as u8),
				1 => out.extend_from_slice(&[0xde, 0, n as u8]),
				_ => out.extend_from_slice(&[0xdf, 0, 0, 0, n as u8]),
			}
			for _ in 0..n {
				gen_value(rng, depth - 1, out);
				gen_value(rng, depth - 1, out);
			}
		}
	}
}
