//! C17: the resource trace of the libyaml binding (probes behind the `verif`
//! feature) under well-behaved, short, failing and over-reporting readers and
//! early drops, to be validated by the monitor of MemModel.v.
use std::collections::BTreeMap;
use std::io::{self, Read, Write};
use std::panic::{catch_unwind, AssertUnwindSafe};

use crate::util::*;

/// A reader that claims to have read `excess` more bytes than it did
/// (violating the Read contract), from the `from`-th call on.
struct Liar {
	inner: SchedReader,
	excess: usize,
	from_call: usize,
	calls: usize,
}

impl Read for Liar {
	fn read(&mut self, buf: &mut [u8]) -> io::Result<usize> {
		let n = self.inner.read(buf)?;
		self.calls += 1;
		// at end of input tell the truth: a reader that never reports EOF is an endless stream, not a lying one
		if n > 0 && self.calls > self.from_call { Ok(n + self.excess) } else { Ok(n) }
	}
}

/// A reader that panics at its `at`-th call (a bug in the caller's reader): the unwinding must still release everything.
struct PanicReader {
	inner: SchedReader,
	at: usize,
	calls: usize,
}

impl Read for PanicReader {
	fn read(&mut self, buf: &mut [u8]) -> io::Result<usize> {
		if self.calls == self.at {
			panic!("reader panics at call {}", self.at);
		}
		self.calls += 1;
		self.inner.read(buf)
	}
}

/// A reader that claims to have read bytes without storing any (within the buffer's size, so the binding's guard cannot
/// tell): whatever the buffer held before is what the parser then sees.  Harmless when the binding hands out zeroed
/// memory; a read of uninitialised memory (memcheck, thorough tier) when it does not.
struct LazyReader {
	claims: Vec<usize>,
	calls: usize,
}

impl Read for LazyReader {
	fn read(&mut self, buf: &mut [u8]) -> io::Result<usize> {
		let n = self.claims.get(self.calls).copied().unwrap_or(0).min(buf.len());
		self.calls += 1;
		Ok(n)
	}
}

/// A writer that panics once it has been given `after` bytes.
struct PanicWriter {
	after: usize,
	seen: usize,
}

impl Write for PanicWriter {
	fn write(&mut self, buf: &[u8]) -> io::Result<usize> {
		self.seen += buf.len();
		if self.seen > self.after {
			panic!("writer panics");
		}
		Ok(buf.len())
	}
	fn flush(&mut self) -> io::Result<()> {
		Ok(())
	}
}

fn trace_field() -> String {
	let t = xt::verif::trace::take();
	let parts: Vec<String> = t
		.iter()
		.map(|(code, a, b, c)| match code {
			1 => "I".to_string(),
			2 => "A".to_string(),
			3 => format!("c{a}:{b}:{c}"),
			4 => "R".to_string(),
			5 => "D".to_string(),
			6 => "F".to_string(),
			7 => "e".to_string(),
			_ => "d".to_string(),
		})
		.collect();
	if parts.is_empty() { "-".to_string() } else { parts.join(",") }
}

pub struct Stats {
	pub cases: usize,
	pub kinds: BTreeMap<String, usize>,
	pub outcomes: BTreeMap<String, usize>,
	pub copies: usize,
	pub refusals: usize,
	pub parsers: usize,
	pub nontrivial: usize,
	pub samples: Vec<String>,
}

const DOCS: [&[u8]; 12] = [
	b"a: 1\n", b"---\na: 1\n---\nb: 2\n---\n- c\n", b"- [1, 2, {a: b}]\n- &x y\n- *x\n", b"a: [1, 2\n", b"*y", b"", b"# only\n",
	b"\xc3\xa9: [\xf0\x9f\x98\x80]\n", b"a: |\n  text\n---\n- x\n...\n", b"\xff\xfe", b"key: 'v'\n--- 1\n--- 2\n--- 3\n", b"{a: 1, b: [2, 3]}\n",
];

pub fn generate_and_run(seed: u64, tier: &str, cases_w: &mut dyn Write, impl_w: &mut dyn Write) -> Stats {
	std::panic::set_hook(Box::new(|_| {}));
	let mut st = Stats { cases: 0, kinds: BTreeMap::new(), outcomes: BTreeMap::new(), copies: 0, refusals: 0, parsers: 0, nontrivial: 0, samples: vec![] };
	let mut rng = Rng::new(seed ^ 0x17);
	let mut id = 0usize;
	xt::verif::trace::start();
	let _ = xt::verif::trace::take();
	let mut record = |kind: &str, outcome: &str, st: &mut Stats, cases_w: &mut dyn Write, impl_w: &mut dyn Write| {
		let tr = trace_field();
		st.copies += tr.matches('c').count();
		st.refusals += tr.matches('R').count();
		st.parsers += tr.matches('I').count();
		if tr.contains('R') || tr.matches('e').count() != tr.matches('d').count() {
			st.nontrivial += 1;
		}
		writeln!(cases_w, "MP {id} {tr}").unwrap();
		// the implementation side of the diff: a trace must be accepted and leave nothing alive
		writeln!(impl_w, "{id} ok clean").unwrap();
		*st.kinds.entry(kind.to_string()).or_default() += 1;
		*st.outcomes.entry(outcome.to_string()).or_default() += 1;
		if st.samples.len() < 4 && (id % 211 == 3) {
			st.samples.push(format!("{kind}: MP {id} {}", &tr[..tr.len().min(200)]));
		}
		id += 1;
	};
	let mut inputs: Vec<Vec<u8>> = DOCS.iter().map(|d| d.to_vec()).collect();
	// a long stream so that libyaml refills its buffer several times
	let mut long = vec![];
	for i in 0..1500 {
		long.extend_from_slice(format!("---\nk{i}: [1, 2, {{a: b}}]\n").as_bytes());
	}
	inputs.push(long);
	// long non-ASCII streams, shifted byte by byte, so that libyaml's 16 KiB raw buffer ends inside 2-, 3- and 4-byte
	// characters and the next read is asked for less than the buffer's size
	for shift in 0..4usize {
		let mut t = "a".repeat(shift);
		t.push_str("k: \"");
		for _ in 0..5000 {
			t.push_str("\u{20ac}\u{1f600}\u{e9}");
		}
		t.push_str("\"\n");
		inputs.push(t.into_bytes());
	}
	let n_rand = if tier == "thorough" { 300 } else { 40 };
	for _ in 0..n_rand {
		let mut d = vec![];
		for _ in 0..rng.below(5) {
			d.extend_from_slice(*rng.pick(&DOCS));
		}
		if !d.is_empty() && rng.chance(1, 3) {
			let i = rng.below(d.len() as u64) as usize;
			d[i] = *rng.pick(&[b'[', b':', 0xff, b'\t', b'&']);
		}
		inputs.push(d);
	}
	// readers that claim bytes they never stored (run once, not per input)
	if std::env::var("XT_VERIF_PANIC_CASES").map(|v| v != "only").unwrap_or(true) {
		for claims in [vec![1usize], vec![7, 7], vec![16384, 3], vec![100000], vec![8192, 8192, 8192]] {
			let r = catch_unwind(AssertUnwindSafe(|| xt::verif::yaml_chunks(LazyReader { claims: claims.clone(), calls: 0 }).len()));
			record("reader that stores nothing", if r.is_ok() { "returned" } else { "clean panic" }, &mut st, cases_w, impl_w);
			let r = catch_unwind(AssertUnwindSafe(|| {
				xt::translate_reader(LazyReader { claims: claims.clone(), calls: 0 }, Some(xt::Format::Yaml), xt::Format::Json, io::sink()).is_ok()
			}));
			record("reader that stores nothing (translate)", if r.is_ok() { "returned" } else { "clean panic" }, &mut st, cases_w, impl_w);
		}
	}
	// which families to run: "all" (default), "none" (no panicking readers/writers, no reader whose over-report makes xt
	// itself panic), "only" (just the panicking readers), "overreport" (just those over-reports); the memcheck
	// runs of the thorough tier separate them because a panic that unwinds through libyaml is a listed known finding
	let panic_cases = std::env::var("XT_VERIF_PANIC_CASES").unwrap_or_else(|_| "all".to_string());
	for data in &inputs {
		// readers whose claim reaches and passes the end of the 16 KiB buffer they were given, lying from the first, second or
		// third call, through the chunker and through a whole translation with the format named (xt's own slice index panics
		// inside the read callback: a clean panic, which unwinds through libyaml)
		if (panic_cases == "overreport" || panic_cases == "all") && data.len() <= 20000 {
			for excess in [16384usize - 9, 16384 - 8, 16384, 16385, 20000, 1 << 20] {
				for from_call in 0..3 {
					let mk = || Liar { inner: SchedReader::new(data, Sched::Fixed(9), None), excess, from_call, calls: 0 };
					let r = catch_unwind(AssertUnwindSafe(|| xt::verif::yaml_chunks(mk()).len()));
					record("over-reporting past the buffer (chunker)", if r.is_ok() { "returned" } else { "clean panic" }, &mut st, cases_w, impl_w);
					let r = catch_unwind(AssertUnwindSafe(|| xt::translate_reader(mk(), Some(xt::Format::Yaml), xt::Format::Json, io::sink()).is_ok()));
					record("over-reporting past the buffer (translate)", if r.is_ok() { "returned" } else { "clean panic" }, &mut st, cases_w, impl_w);
				}
			}
		}
		if panic_cases == "overreport" {
			continue;
		}
		if panic_cases == "only" {
			for at in [0usize, 1, 2, 5] {
				let mk = || PanicReader { inner: SchedReader::new(data, Sched::Fixed(11), None), at, calls: 0 };
				let r = catch_unwind(AssertUnwindSafe(|| xt::verif::yaml_chunks(mk()).len()));
				record("panicking reader", if r.is_ok() { "returned" } else { "clean panic" }, &mut st, cases_w, impl_w);
			}
			continue;
		}
		// inputs far larger than libyaml's buffer: whole-buffer reads and large pieces only (the byte-by-byte drivers below
		// would take minutes on them and add nothing)
		if data.len() > 20000 {
			for sched in [Sched::Full, Sched::Fixed(4099), Sched::Fixed(16384), Sched::Random { seed: rng.next(), max: 9000 }] {
				let r = catch_unwind(AssertUnwindSafe(|| xt::verif::yaml_chunks(SchedReader::new(data, sched.clone(), None)).len()));
				record("chunks (large input)", if r.is_ok() { "returned" } else { "panic" }, &mut st, cases_w, impl_w);
				let r = catch_unwind(AssertUnwindSafe(|| {
					xt::translate_reader(SchedReader::new(data, sched.clone(), None), None, xt::Format::Json, io::sink()).is_ok()
				}));
				record("detect+translate (large input)", if r.is_ok() { "returned" } else { "panic" }, &mut st, cases_w, impl_w);
			}
			for k in [data.len() / 3, data.len() - 1] {
				let r = catch_unwind(AssertUnwindSafe(|| xt::verif::yaml_chunks(SchedReader::new(data, Sched::Fixed(8192), Some(k))).len()));
				record("reader error (large input)", if r.is_ok() { "returned" } else { "panic" }, &mut st, cases_w, impl_w);
			}
			continue;
		}
		// well-behaved readers with short reads: all chunks, first chunk only (detection), full translation
		for sched in [Sched::Full, Sched::Fixed(1), Sched::Fixed(7), Sched::Random { seed: rng.next(), max: 50 }] {
			let r = catch_unwind(AssertUnwindSafe(|| xt::verif::yaml_chunks(SchedReader::new(data, sched.clone(), None)).len()));
			record("chunks", if r.is_ok() { "returned" } else { "panic" }, &mut st, cases_w, impl_w);
			let r = catch_unwind(AssertUnwindSafe(|| xt::verif::detect_reader(SchedReader::new(data, sched.clone(), None)).is_ok()));
			record("detect (drops the chunker after one document)", if r.is_ok() { "returned" } else { "panic" }, &mut st, cases_w, impl_w);
			let r = catch_unwind(AssertUnwindSafe(|| {
				xt::translate_reader(SchedReader::new(data, sched.clone(), None), Some(xt::Format::Yaml), xt::Format::Json, io::sink()).is_ok()
			}));
			record("translate", if r.is_ok() { "returned" } else { "panic" }, &mut st, cases_w, impl_w);
		}
		// reader errors at every offset (bounded)
		let step = (data.len() / 40).max(1);
		let mut k = 0;
		while k <= data.len() {
			let r = catch_unwind(AssertUnwindSafe(|| xt::verif::yaml_chunks(SchedReader::new(data, Sched::Fixed(5), Some(k))).len()));
			record("reader error", if r.is_ok() { "returned" } else { "panic" }, &mut st, cases_w, impl_w);
			k += step;
		}
		// over-reporting readers of every excess, lying from the first or a later call
		let max_excess = if tier == "thorough" { 64 } else { 24 };
		for excess in 1..=max_excess {
			let from_call = if excess % 3 == 0 { 1 } else { 0 };
			let mk = || Liar { inner: SchedReader::new(data, Sched::Fixed(9), None), excess, from_call, calls: 0 };
			let r = catch_unwind(AssertUnwindSafe(|| xt::verif::yaml_chunks(mk()).len()));
			record("over-reporting reader", if r.is_ok() { "returned" } else { "clean panic" }, &mut st, cases_w, impl_w);
			if excess % 8 == 1 {
				let r = catch_unwind(AssertUnwindSafe(|| xt::translate_reader(mk(), None, xt::Format::Json, io::sink()).is_ok()));
				record("over-reporting reader (detect+translate)", if r.is_ok() { "returned" } else { "clean panic" }, &mut st, cases_w, impl_w);
			}
		}
		// a panic unwinding through the binding (the reader's or the writer's fault): nothing may stay alive
		for at in if panic_cases == "none" { vec![] } else { vec![0usize, 1, 2, 5] } {
			let mk = || PanicReader { inner: SchedReader::new(data, Sched::Fixed(11), None), at, calls: 0 };
			let r = catch_unwind(AssertUnwindSafe(|| xt::verif::yaml_chunks(mk()).len()));
			record("panicking reader", if r.is_ok() { "returned" } else { "clean panic" }, &mut st, cases_w, impl_w);
			let r = catch_unwind(AssertUnwindSafe(|| xt::translate_reader(mk(), None, xt::Format::Json, io::sink()).is_ok()));
			record("panicking reader (detect+translate)", if r.is_ok() { "returned" } else { "clean panic" }, &mut st, cases_w, impl_w);
		}
		for after in if panic_cases == "none" { vec![] } else { vec![0usize, 3, 40] } {
			let r = catch_unwind(AssertUnwindSafe(|| {
				xt::translate_reader(SchedReader::new(data, Sched::Fixed(7), None), Some(xt::Format::Yaml), xt::Format::Json, PanicWriter { after, seen: 0 }).is_ok()
			}));
			record("panicking writer", if r.is_ok() { "returned" } else { "clean panic" }, &mut st, cases_w, impl_w);
		}
		// a reader that over-reports by more than libyaml's whole buffer
		let mk = || Liar { inner: SchedReader::new(data, Sched::Full, None), excess: 1 << 20, from_call: 0, calls: 0 };
		let r = catch_unwind(AssertUnwindSafe(|| xt::verif::yaml_events(mk()).len()));
		record("over-reporting beyond the buffer (parser only)", if r.is_ok() { "returned" } else { "clean panic" }, &mut st, cases_w, impl_w);
	}
	// The parser driven without the chunker's own reader in between (as `has_document` drives it): a reader that fills a
	// 16 KiB request completely and claims a few bytes more.  Whatever the parser makes of it, the events it yields must be
	// the events an honest reader yields that delivers the same bytes and then fails: anything more was parsed from memory
	// the reader never filled.
	if std::env::var("XT_VERIF_PANIC_CASES").map(|v| v != "only").unwrap_or(true) {
		let mut big = vec![];
		for i in 0..14000 {
			big.extend_from_slice(format!("- b{i}\n").as_bytes());
		}
		/// Fills every request completely; from call `from_call` on claims `excess` bytes more, and notes how many bytes it
		/// had really delivered when it first lied.
		struct FullLiar {
			data: Vec<u8>,
			pos: usize,
			excess: usize,
			from_call: usize,
			calls: usize,
			lied_at: std::rc::Rc<std::cell::Cell<Option<usize>>>,
		}
		impl Read for FullLiar {
			fn read(&mut self, buf: &mut [u8]) -> io::Result<usize> {
				let n = buf.len().min(self.data.len() - self.pos);
				buf[..n].copy_from_slice(&self.data[self.pos..self.pos + n]);
				self.pos += n;
				self.calls += 1;
				if n == buf.len() && n > 0 && self.calls > self.from_call {
					if self.lied_at.get().is_none() {
						self.lied_at.set(Some(self.pos));
					}
					Ok(n + self.excess)
				} else {
					Ok(n)
				}
			}
		}
		for excess in [1usize, 8, 16, 64, 1000] {
			for from_call in [0usize, 1] {
				let lied_at = std::rc::Rc::new(std::cell::Cell::new(None));
				let l2 = lied_at.clone();
				let lying = catch_unwind(AssertUnwindSafe(|| {
					xt::verif::yaml_events(FullLiar { data: big.clone(), pos: 0, excess, from_call, calls: 0, lied_at: l2 })
				}));
				let tr = trace_field();
				let upto = lied_at.get().unwrap_or(big.len());
				let honest = catch_unwind(AssertUnwindSafe(|| xt::verif::yaml_events(SchedReader::new(&big, Sched::Full, Some(upto)))));
				let _ = trace_field();
				let n = |r: &std::thread::Result<Vec<(u32, u64, u64)>>| r.as_ref().map(|v| v.iter().filter(|e| e.0 != 255).count()).unwrap_or(0);
				let same = n(&lying) <= n(&honest);
				writeln!(cases_w, "MP {id} {tr}").unwrap();
				if same {
					writeln!(impl_w, "{id} ok clean").unwrap();
				} else {
					writeln!(impl_w, "{id} overread: a reader that fills a request of the parser completely and claims {excess} bytes more (from call {from_call}, {upto} bytes really delivered) yields {} events, an honest reader delivering the same {upto} bytes and then failing yields {}", n(&lying), n(&honest)).unwrap();
				}
				*st.kinds.entry("over-reporting past a full buffer (parser only, events compared with an honest reader)".to_string()).or_default() += 1;
				*st.outcomes.entry(if lying.is_ok() { "returned" } else { "clean panic" }.to_string()).or_default() += 1;
				id += 1;
			}
		}
	}
	st.cases = id;
	st
}
