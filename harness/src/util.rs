//! Shared pieces: PRNG, hex, scheduled/faulting reader, faulting writer.
use std::io::{self, Read, Write};

/// SplitMix64: every random choice in the harness derives from one of these.
#[derive(Clone)]
pub struct Rng(pub u64);

impl Rng {
	pub fn new(seed: u64) -> Rng {
		Rng(seed.wrapping_mul(0x9E37_79B9_7F4A_7C15).wrapping_add(0x1234_5678_9ABC_DEF1))
	}
	pub fn next(&mut self) -> u64 {
		self.0 = self.0.wrapping_add(0x9E37_79B9_7F4A_7C15);
		let mut z = self.0;
		z = (z ^ (z >> 30)).wrapping_mul(0xBF58_476D_1CE4_E5B9);
		z = (z ^ (z >> 27)).wrapping_mul(0x94D0_49BB_1331_11EB);
		z ^ (z >> 31)
	}
	/// Uniform in 0..n (n > 0).
	pub fn below(&mut self, n: u64) -> u64 {
		self.next() % n
	}
	pub fn range(&mut self, lo: u64, hi: u64) -> u64 {
		lo + self.below(hi - lo + 1)
	}
	pub fn chance(&mut self, num: u64, den: u64) -> bool {
		self.below(den) < num
	}
	pub fn pick<'a, T>(&mut self, xs: &'a [T]) -> &'a T {
		&xs[self.below(xs.len() as u64) as usize]
	}
}

pub fn hex(bs: &[u8]) -> String {
	if bs.is_empty() {
		return "-".to_string();
	}
	let mut s = String::with_capacity(bs.len() * 2);
	for b in bs {
		s.push_str(&format!("{b:02x}"));
	}
	s
}

pub fn unhex(s: &str) -> Vec<u8> {
	if s == "-" {
		return vec![];
	}
	(0..s.len() / 2)
		.map(|i| u8::from_str_radix(&s[2 * i..2 * i + 2], 16).unwrap())
		.collect()
}

pub const FAULT_MARK: &str = "INJECTED-READ-FAULT@";
pub const WFAULT_MARK: &str = "INJECTED-WRITE-FAULT@";

/// The fault offset named by an injected read error message, if any.
pub fn fault_of(msg: &str) -> Option<usize> {
	let i = msg.find(FAULT_MARK)?;
	let rest = &msg[i + FAULT_MARK.len()..];
	let digits: String = rest.chars().take_while(|c| c.is_ascii_digit()).collect();
	digits.parse().ok()
}

/// How a read of the source is limited.
#[derive(Clone)]
pub enum Sched {
	/// Never short.
	Full,
	/// At most `caps[d] + 1` bytes when `d` bytes have been delivered
	/// (offsets past the end of the table: 1 byte).
	ByOffset(Vec<usize>),
	/// Pseudo-random caps in 1..=max derived from the offset and a seed.
	Random { seed: u64, max: usize },
	/// Every read returns at most n bytes.
	Fixed(usize),
}

impl Sched {
	pub fn cap(&self, delivered: usize) -> usize {
		match self {
			Sched::Full => usize::MAX,
			Sched::ByOffset(caps) => caps.get(delivered).copied().unwrap_or(0) + 1,
			Sched::Random { seed, max } => {
				let mut r = Rng::new(seed ^ (delivered as u64).wrapping_mul(0xA24B_AED4_963E_E407));
				1 + r.below(*max as u64) as usize
			}
			Sched::Fixed(n) => *n,
		}
	}
}

/// A reader over a byte vector with a short-read schedule indexed by the
/// number of bytes delivered, and an optional sticky fault: once `fault` bytes
/// have been delivered every read fails with the given kind.
pub struct SchedReader {
	pub data: Vec<u8>,
	pub deliv: usize,
	pub sched: Sched,
	pub fault: Option<usize>,
	pub fault_kind: io::ErrorKind,
	/// How the fault's error value is built: 0 = `io::Error::new(kind, text naming the offset)`, 1 = an OS error
	/// (`from_raw_os_error(5)`, no boxed payload), 2 = the bare kind (`kind.into()`, no payload).
	pub fault_style: u8,
	/// The read call (counted from 0) that fails once with `ErrorKind::Interrupted` and changes nothing: a caller that
	/// retries, as `Read`'s contract asks, sees the same stream.
	pub interrupt_at: Option<usize>,
	pub calls: usize,
	/// (bytes delivered before the call) for every read call, when logging.
	pub log: Option<std::rc::Rc<std::cell::RefCell<Vec<usize>>>>,
}

impl SchedReader {
	pub fn new(data: &[u8], sched: Sched, fault: Option<usize>) -> SchedReader {
		SchedReader {
			data: data.to_vec(),
			deliv: 0,
			sched,
			fault,
			fault_kind: io::ErrorKind::Other,
			fault_style: 0,
			interrupt_at: None,
			calls: 0,
			log: None,
		}
	}
	pub fn kind(mut self, kind: io::ErrorKind) -> SchedReader {
		self.fault_kind = kind;
		self
	}
	pub fn style(mut self, style: u8) -> SchedReader {
		self.fault_style = style;
		self
	}
	pub fn interrupt(mut self, at: Option<usize>) -> SchedReader {
		self.interrupt_at = at;
		self
	}
}

impl Read for SchedReader {
	fn read(&mut self, buf: &mut [u8]) -> io::Result<usize> {
		if let Some(log) = &self.log {
			log.borrow_mut().push(self.deliv);
		}
		let call = self.calls;
		self.calls += 1;
		if self.interrupt_at == Some(call) {
			return Err(io::Error::new(io::ErrorKind::Interrupted, "interrupted once"));
		}
		if let Some(k) = self.fault {
			if self.deliv >= k {
				return Err(match self.fault_style {
					1 => io::Error::from_raw_os_error(5),
					2 => self.fault_kind.into(),
					_ => io::Error::new(self.fault_kind, format!("{FAULT_MARK}{k}")),
				});
			}
		}
		let end = match self.fault {
			Some(k) => k.min(self.data.len()),
			None => self.data.len(),
		};
		let n = buf.len().min(self.sched.cap(self.deliv)).min(end - self.deliv);
		buf[..n].copy_from_slice(&self.data[self.deliv..self.deliv + n]);
		self.deliv += n;
		Ok(n)
	}
}

/// A writer that records what it accepted, optionally accepts only short
/// pieces, and optionally fails (stickily) once `fault` bytes were accepted.
pub struct FaultWriter {
	pub accepted: Vec<u8>,
	pub fault: Option<usize>,
	pub fault_kind: io::ErrorKind,
	/// Maximum bytes accepted per write call (None: everything).
	pub short: Option<Sched>,
	pub flushes: usize,
	pub writes: usize,
}

impl FaultWriter {
	pub fn new() -> FaultWriter {
		FaultWriter {
			accepted: vec![],
			fault: None,
			fault_kind: io::ErrorKind::Other,
			short: None,
			flushes: 0,
			writes: 0,
		}
	}
}

impl Write for FaultWriter {
	fn write(&mut self, buf: &[u8]) -> io::Result<usize> {
		self.writes += 1;
		let mut n = buf.len();
		if let Some(s) = &self.short {
			n = n.min(s.cap(self.accepted.len()));
		}
		if let Some(k) = self.fault {
			let room = k.saturating_sub(self.accepted.len());
			if room == 0 && !buf.is_empty() {
				return Err(io::Error::new(self.fault_kind, format!("{WFAULT_MARK}{k}")));
			}
			n = n.min(room);
		}
		self.accepted.extend_from_slice(&buf[..n]);
		Ok(n)
	}
	fn flush(&mut self) -> io::Result<()> {
		self.flushes += 1;
		Ok(())
	}
}
