//! C11/C01/C04: xt's streaming transcoder driven by a scripted Deserializer and
//! a recording, failing Serializer, against TranscodeModel.v.
use std::cell::RefCell;
use std::collections::BTreeMap;
use std::fmt;
use std::io::Write;
use std::panic::{catch_unwind, AssertUnwindSafe};

use serde::de::{self, DeserializeSeed, Deserializer, MapAccess, SeqAccess, Visitor};
use serde::ser::{self, Serialize, SerializeMap, SerializeSeq, Serializer};

use crate::util::*;

// ---------- scripts ----------

#[derive(Clone, Debug)]
pub enum Script {
	Scalar(u8, u64),
	Fail(u32),
	Seq(Option<u64>, Vec<Script>, Option<u32>, Option<u32>),
	Map(Option<u64>, Vec<(Script, Script)>, Option<u32>, Option<u32>),
}

fn opt<T: fmt::Display>(o: &Option<T>) -> String {
	o.as_ref().map_or("-".to_string(), |x| x.to_string())
}

impl Script {
	pub fn tokens(&self, out: &mut Vec<String>) {
		match self {
			Script::Scalar(m, p) => out.push(format!("S,{m},{p}")),
			Script::Fail(e) => out.push(format!("F,{e}")),
			Script::Seq(h, els, t, po) => {
				out.push(format!("Q,{},{},{},{}", opt(h), opt(t), opt(po), els.len()));
				for e in els {
					e.tokens(out);
				}
			}
			Script::Map(h, es, t, po) => {
				out.push(format!("M,{},{},{},{}", opt(h), opt(t), opt(po), es.len()));
				for (k, v) in es {
					k.tokens(out);
					v.tokens(out);
				}
			}
		}
	}
	pub fn nodes(&self) -> usize {
		match self {
			Script::Scalar(..) | Script::Fail(_) => 1,
			Script::Seq(_, els, _, _) => 1 + els.iter().map(Script::nodes).sum::<usize>(),
			Script::Map(_, es, _, _) => 1 + es.iter().map(|(k, v)| k.nodes() + v.nodes()).sum::<usize>(),
		}
	}
}

// ---------- errors ----------

#[derive(Debug)]
pub struct DeErr(pub Option<u32>, pub String);
#[derive(Debug)]
pub struct SerErr(pub Option<u32>, pub String);

impl fmt::Display for DeErr {
	fn fmt(&self, f: &mut fmt::Formatter) -> fmt::Result {
		match self.0 {
			Some(id) => write!(f, "DE#{id}"),
			None => write!(f, "{}", self.1),
		}
	}
}
impl fmt::Display for SerErr {
	fn fmt(&self, f: &mut fmt::Formatter) -> fmt::Result {
		match self.0 {
			Some(id) => write!(f, "SE#{id}"),
			None => write!(f, "{}", self.1),
		}
	}
}
impl std::error::Error for DeErr {}
impl std::error::Error for SerErr {}
impl de::Error for DeErr {
	fn custom<T: fmt::Display>(msg: T) -> Self {
		DeErr(None, msg.to_string())
	}
}
impl ser::Error for SerErr {
	fn custom<T: fmt::Display>(msg: T) -> Self {
		SerErr(None, msg.to_string())
	}
}

// ---------- the scripted deserializer ----------

pub struct ScriptDe<'a>(pub &'a Script);

impl<'de, 'a> Deserializer<'de> for ScriptDe<'a> {
	type Error = DeErr;

	fn deserialize_any<V: Visitor<'de>>(self, visitor: V) -> Result<V::Value, DeErr> {
		match self.0 {
			Script::Fail(e) => Err(DeErr(Some(*e), String::new())),
			Script::Scalar(m, p) => {
				let p = *p;
				match m {
					0 => visitor.visit_unit(),
					1 => visitor.visit_bool(p != 0),
					2 => visitor.visit_i8(p as u8 as i8),
					3 => visitor.visit_i16(p as u16 as i16),
					4 => visitor.visit_i32(p as u32 as i32),
					5 => visitor.visit_i64(p as i64),
					6 => visitor.visit_i128(p as i64 as i128),
					7 => visitor.visit_u8(p as u8),
					8 => visitor.visit_u16(p as u16),
					9 => visitor.visit_u32(p as u32),
					10 => visitor.visit_u64(p),
					11 => visitor.visit_u128(u128::from(p)),
					12 => visitor.visit_f32(f32::from_bits(p as u32)),
					13 => visitor.visit_f64(f64::from_bits(p)),
					14 => visitor.visit_char(char::from_u32((p % 0xD800) as u32).unwrap()),
					15 => visitor.visit_str(&p.to_string()),
					_ => visitor.visit_bytes(&p.to_be_bytes()),
				}
			}
			Script::Seq(h, els, t, po) => {
				let v = visitor.visit_seq(SeqAcc { hint: *h, els, i: 0, tail: *t })?;
				match po {
					Some(e) => Err(DeErr(Some(*e), String::new())),
					None => Ok(v),
				}
			}
			Script::Map(h, es, t, po) => {
				let v = visitor.visit_map(MapAcc { hint: *h, es, i: 0, tail: *t })?;
				match po {
					Some(e) => Err(DeErr(Some(*e), String::new())),
					None => Ok(v),
				}
			}
		}
	}

	serde::forward_to_deserialize_any! {
		bool i8 i16 i32 i64 i128 u8 u16 u32 u64 u128 f32 f64 char str string bytes byte_buf option unit
		unit_struct newtype_struct seq tuple tuple_struct map struct enum identifier ignored_any
	}
}

struct SeqAcc<'a> {
	hint: Option<u64>,
	els: &'a [Script],
	i: usize,
	tail: Option<u32>,
}

impl<'de, 'a> SeqAccess<'de> for SeqAcc<'a> {
	type Error = DeErr;
	fn next_element_seed<T: DeserializeSeed<'de>>(&mut self, seed: T) -> Result<Option<T::Value>, DeErr> {
		if self.i < self.els.len() {
			self.i += 1;
			seed.deserialize(ScriptDe(&self.els[self.i - 1])).map(Some)
		} else {
			match self.tail {
				Some(e) => Err(DeErr(Some(e), String::new())),
				None => Ok(None),
			}
		}
	}
	fn size_hint(&self) -> Option<usize> {
		self.hint.map(|h| h as usize)
	}
}

struct MapAcc<'a> {
	hint: Option<u64>,
	es: &'a [(Script, Script)],
	i: usize,
	tail: Option<u32>,
}

impl<'de, 'a> MapAccess<'de> for MapAcc<'a> {
	type Error = DeErr;
	fn next_key_seed<K: DeserializeSeed<'de>>(&mut self, seed: K) -> Result<Option<K::Value>, DeErr> {
		if self.i < self.es.len() {
			seed.deserialize(ScriptDe(&self.es[self.i].0)).map(Some)
		} else {
			match self.tail {
				Some(e) => Err(DeErr(Some(e), String::new())),
				None => Ok(None),
			}
		}
	}
	fn next_value_seed<V: DeserializeSeed<'de>>(&mut self, seed: V) -> Result<V::Value, DeErr> {
		self.i += 1;
		seed.deserialize(ScriptDe(&self.es[self.i - 1].1))
	}
	fn size_hint(&self) -> Option<usize> {
		self.hint.map(|h| h as usize)
	}
}

// ---------- the recording serializer ----------

pub struct SerState {
	pub counter: usize,
	pub log: Vec<String>,
	pub fails: BTreeMap<usize, u32>,
	pub element_twice: bool,
}

#[derive(Clone, Copy)]
pub struct RecSer<'a>(pub &'a RefCell<SerState>);

impl<'a> RecSer<'a> {
	fn step(&self, call: String) -> Result<(), SerErr> {
		let mut st = self.0.borrow_mut();
		let n = st.counter;
		st.counter += 1;
		st.log.push(call);
		match st.fails.get(&n) {
			Some(id) => Err(SerErr(Some(*id), String::new())),
			None => Ok(()),
		}
	}
	fn scalar(&self, m: u8, p: u64) -> Result<(), SerErr> {
		self.step(format!("s{m}:{p}"))
	}
}

macro_rules! unsupported {
	() => {
		Err(SerErr(None, "unsupported serializer method".to_string()))
	};
}

impl<'a> Serializer for RecSer<'a> {
	type Ok = ();
	type Error = SerErr;
	type SerializeSeq = RecSer<'a>;
	type SerializeTuple = ser::Impossible<(), SerErr>;
	type SerializeTupleStruct = ser::Impossible<(), SerErr>;
	type SerializeTupleVariant = ser::Impossible<(), SerErr>;
	type SerializeMap = RecSer<'a>;
	type SerializeStruct = ser::Impossible<(), SerErr>;
	type SerializeStructVariant = ser::Impossible<(), SerErr>;

	fn serialize_unit(self) -> Result<(), SerErr> { self.scalar(0, 0) }
	fn serialize_bool(self, v: bool) -> Result<(), SerErr> { self.scalar(1, u64::from(v)) }
	fn serialize_i8(self, v: i8) -> Result<(), SerErr> { self.scalar(2, u64::from(v as u8)) }
	fn serialize_i16(self, v: i16) -> Result<(), SerErr> { self.scalar(3, u64::from(v as u16)) }
	fn serialize_i32(self, v: i32) -> Result<(), SerErr> { self.scalar(4, u64::from(v as u32)) }
	fn serialize_i64(self, v: i64) -> Result<(), SerErr> { self.scalar(5, v as u64) }
	fn serialize_i128(self, v: i128) -> Result<(), SerErr> { self.scalar(6, v as i64 as u64) }
	fn serialize_u8(self, v: u8) -> Result<(), SerErr> { self.scalar(7, u64::from(v)) }
	fn serialize_u16(self, v: u16) -> Result<(), SerErr> { self.scalar(8, u64::from(v)) }
	fn serialize_u32(self, v: u32) -> Result<(), SerErr> { self.scalar(9, u64::from(v)) }
	fn serialize_u64(self, v: u64) -> Result<(), SerErr> { self.scalar(10, v) }
	fn serialize_u128(self, v: u128) -> Result<(), SerErr> { self.scalar(11, v as u64) }
	fn serialize_f32(self, v: f32) -> Result<(), SerErr> { self.scalar(12, u64::from(v.to_bits())) }
	fn serialize_f64(self, v: f64) -> Result<(), SerErr> { self.scalar(13, v.to_bits()) }
	fn serialize_char(self, v: char) -> Result<(), SerErr> { self.scalar(14, u64::from(v as u32)) }
	fn serialize_str(self, v: &str) -> Result<(), SerErr> { self.scalar(15, v.parse().unwrap_or(u64::MAX)) }
	fn serialize_bytes(self, v: &[u8]) -> Result<(), SerErr> {
		let mut b = [0u8; 8];
		if v.len() == 8 { b.copy_from_slice(v); }
		self.scalar(16, u64::from_be_bytes(b))
	}
	fn serialize_none(self) -> Result<(), SerErr> { unsupported!() }
	fn serialize_some<T: ?Sized + Serialize>(self, _: &T) -> Result<(), SerErr> { unsupported!() }
	fn serialize_unit_struct(self, _: &'static str) -> Result<(), SerErr> { unsupported!() }
	fn serialize_unit_variant(self, _: &'static str, _: u32, _: &'static str) -> Result<(), SerErr> { unsupported!() }
	fn serialize_newtype_struct<T: ?Sized + Serialize>(self, _: &'static str, _: &T) -> Result<(), SerErr> { unsupported!() }
	fn serialize_newtype_variant<T: ?Sized + Serialize>(self, _: &'static str, _: u32, _: &'static str, _: &T) -> Result<(), SerErr> { unsupported!() }
	fn serialize_seq(self, len: Option<usize>) -> Result<RecSer<'a>, SerErr> {
		self.step(format!("q{}", opt(&len)))?;
		Ok(self)
	}
	fn serialize_tuple(self, _: usize) -> Result<Self::SerializeTuple, SerErr> { unsupported!() }
	fn serialize_tuple_struct(self, _: &'static str, _: usize) -> Result<Self::SerializeTupleStruct, SerErr> { unsupported!() }
	fn serialize_tuple_variant(self, _: &'static str, _: u32, _: &'static str, _: usize) -> Result<Self::SerializeTupleVariant, SerErr> { unsupported!() }
	fn serialize_map(self, len: Option<usize>) -> Result<RecSer<'a>, SerErr> {
		self.step(format!("m{}", opt(&len)))?;
		Ok(self)
	}
	fn serialize_struct(self, _: &'static str, _: usize) -> Result<Self::SerializeStruct, SerErr> { unsupported!() }
	fn serialize_struct_variant(self, _: &'static str, _: u32, _: &'static str, _: usize) -> Result<Self::SerializeStructVariant, SerErr> { unsupported!() }
}

impl<'a> SerializeSeq for RecSer<'a> {
	type Ok = ();
	type Error = SerErr;
	fn serialize_element<T: ?Sized + Serialize>(&mut self, value: &T) -> Result<(), SerErr> {
		self.step("e<".into())?;
		value.serialize(*self)?;
		self.step("e>".into())
	}
	fn end(self) -> Result<(), SerErr> {
		self.step("Q".into())
	}
}

impl<'a> SerializeMap for RecSer<'a> {
	type Ok = ();
	type Error = SerErr;
	fn serialize_key<T: ?Sized + Serialize>(&mut self, key: &T) -> Result<(), SerErr> {
		self.step("k<".into())?;
		key.serialize(*self)?;
		self.step("k>".into())
	}
	fn serialize_value<T: ?Sized + Serialize>(&mut self, value: &T) -> Result<(), SerErr> {
		self.step("v<".into())?;
		value.serialize(*self)?;
		self.step("v>".into())
	}
	fn end(self) -> Result<(), SerErr> {
		self.step("M".into())
	}
}

// ---------- running one case ----------

pub fn run_impl(sc: &Script, fails: &BTreeMap<usize, u32>) -> String {
	let st = RefCell::new(SerState { counter: 0, log: vec![], fails: fails.clone(), element_twice: false });
	let res = catch_unwind(AssertUnwindSafe(|| xt::verif::transcode(RecSer(&st), ScriptDe(sc))));
	let derr = |d: &DeErr| d.0.map_or("syn".to_string(), |i| i.to_string());
	let serr = |s: &SerErr| s.0.map_or("syn".to_string(), |i| i.to_string());
	let out = match res {
		Ok(Ok(())) => "ok".to_string(),
		Ok(Err(xt::verif::TranscodeError::De(d))) => format!("de:{}", derr(&d)),
		Ok(Err(xt::verif::TranscodeError::Ser(s, d))) => format!("ser:{}:{}", serr(&s), derr(&d)),
		Err(_) => "panic".to_string(),
	};
	let log = st.borrow().log.join(" ");
	format!("{out} | {log}")
}

/// Value::deserialize followed by Value::serialize (src/transcode/value.rs) with a serializer that never fails.
pub fn run_value(sc: &Script) -> String {
	let st = RefCell::new(SerState { counter: 0, log: vec![], fails: BTreeMap::new(), element_twice: false });
	let res = catch_unwind(AssertUnwindSafe(|| xt::verif::value_roundtrip(RecSer(&st), ScriptDe(sc))));
	let out = match res {
		Ok(Ok(Ok(()))) => "ok".to_string(),
		Ok(Ok(Err(s))) => format!("ser:{}", s.0.map_or("syn".to_string(), |i| i.to_string())),
		Ok(Err(d)) => format!("de:{}", d.0.map_or("syn".to_string(), |i| i.to_string())),
		Err(_) => "panic".to_string(),
	};
	let log = st.borrow().log.join(" ");
	format!("{out} | {log}")
}

pub fn value_line(id: usize, sc: &Script) -> String {
	let mut toks = vec![];
	sc.tokens(&mut toks);
	format!("V {id} {}", toks.join(" "))
}

pub fn case_line(id: usize, sc: &Script, fails: &BTreeMap<usize, u32>) -> String {
	let mut toks = vec![];
	sc.tokens(&mut toks);
	let f: Vec<String> = fails.iter().map(|(k, v)| format!("{k}:{v}")).collect();
	format!("T {id} {} {}", if f.is_empty() { "-".to_string() } else { f.join(",") }, toks.join(" "))
}

// ---------- the property's own oracle ----------

/// First fault in execution order, computed directly on the script (an
/// independent re-statement of "whichever side fails first").
fn first_fault(sc: &Script, fails: &BTreeMap<usize, u32>, counter: &mut usize) -> Option<(bool, u32)> {
	let step = |counter: &mut usize| -> Option<(bool, u32)> {
		let n = *counter;
		*counter += 1;
		fails.get(&n).map(|id| (true, *id))
	};
	match sc {
		Script::Fail(e) => Some((false, *e)),
		Script::Scalar(..) => step(counter),
		Script::Seq(_, els, t, po) => {
			if let Some(f) = step(counter) { return Some(f); }
			for el in els {
				if let Some(f) = step(counter) { return Some(f); }
				if let Some(f) = first_fault(el, fails, counter) { return Some(f); }
				if let Some(f) = step(counter) { return Some(f); }
			}
			if let Some(e) = t { return Some((false, *e)); }
			if let Some(f) = step(counter) { return Some(f); }
			po.map(|e| (false, e))
		}
		Script::Map(_, es, t, po) => {
			if let Some(f) = step(counter) { return Some(f); }
			for (k, v) in es {
				for x in [k, v] {
					if let Some(f) = step(counter) { return Some(f); }
					if let Some(f) = first_fault(x, fails, counter) { return Some(f); }
					if let Some(f) = step(counter) { return Some(f); }
				}
			}
			if let Some(e) = t { return Some((false, *e)); }
			if let Some(f) = step(counter) { return Some(f); }
			po.map(|e| (false, e))
		}
	}
}

pub fn oracle(sc: &Script, fails: &BTreeMap<usize, u32>, res: &str) -> Option<String> {
	let outcome = res.split(" | ").next().unwrap_or("");
	let mut c = 0;
	let expect = first_fault(sc, fails, &mut c);
	let ok = match expect {
		None => outcome == "ok",
		Some((false, e)) => outcome == format!("de:{e}"),
		Some((true, s)) => outcome.starts_with(&format!("ser:{s}:")),
	};
	if ok { None } else { Some(format!("first fault is {expect:?} but transcode returned {outcome}")) }
}

// ---------- generation ----------

fn enumerate(nodes: usize, leafs: &[Script]) -> Vec<Script> {
	// all scripts with exactly `nodes` nodes over a reduced vocabulary
	if nodes == 0 {
		return vec![];
	}
	let mut res = vec![];
	if nodes == 1 {
		res.extend(leafs.iter().cloned());
	}
	// sequences: children lists whose node counts sum to nodes-1
	let lists = child_lists(nodes - 1, leafs);
	for els in &lists {
		for t in [None, Some(31)] {
			for po in [None, Some(32)] {
				res.push(Script::Seq(None, els.clone(), t, po));
			}
		}
		if els.len() % 2 == 0 {
			let es: Vec<(Script, Script)> = els.chunks(2).map(|c| (c[0].clone(), c[1].clone())).collect();
			for t in [None, Some(33)] {
				for po in [None, Some(34)] {
					res.push(Script::Map(Some(es.len() as u64), es.clone(), t, po));
				}
			}
		}
	}
	res
}

fn child_lists(total: usize, leafs: &[Script]) -> Vec<Vec<Script>> {
	if total == 0 {
		return vec![vec![]];
	}
	let mut res = vec![];
	for first in 1..=total {
		for head in enumerate(first, leafs) {
			for tail in child_lists(total - first, leafs) {
				let mut v = vec![head.clone()];
				v.extend(tail);
				res.push(v);
			}
		}
	}
	res
}

fn random_script(rng: &mut Rng, depth: usize) -> Script {
	let k = if depth == 0 { rng.below(10) } else { rng.below(16) };
	match k {
		0..=8 => {
			let m = rng.below(17) as u8;
			let bits = match m { 0 => 0, 1 => 1, 2 | 7 => 8, 3 | 8 => 16, 4 | 9 | 12 => 32, 14 => 15, _ => 64 };
			let p = if bits == 0 { 0 } else if bits == 64 { match rng.below(3) { 0 => rng.next(), 1 => u64::MAX, _ => rng.below(300) } } else {
				match rng.below(3) { 0 => (1u64 << bits) - 1, 1 => 1u64 << (bits - 1), _ => rng.below(1u64 << bits) }
			};
			Script::Scalar(m, p)
		}
		9 => Script::Fail(40 + rng.below(10) as u32),
		10..=12 => {
			let n = rng.below(4) as usize;
			Script::Seq(
				if rng.chance(1, 2) { Some(n as u64) } else { None },
				(0..n).map(|_| random_script(rng, depth - 1)).collect(),
				if rng.chance(1, 8) { Some(50 + rng.below(5) as u32) } else { None },
				if rng.chance(1, 8) { Some(60 + rng.below(5) as u32) } else { None },
			)
		}
		_ => {
			let n = rng.below(3) as usize;
			Script::Map(
				if rng.chance(1, 2) { Some(n as u64) } else { None },
				(0..n).map(|_| (random_script(rng, depth - 1), random_script(rng, depth - 1))).collect(),
				if rng.chance(1, 8) { Some(70 + rng.below(5) as u32) } else { None },
				if rng.chance(1, 8) { Some(80 + rng.below(5) as u32) } else { None },
			)
		}
	}
}

pub struct Stats {
	pub cases: usize,
	pub exhaustive_scripts: usize,
	pub max_nodes: usize,
	pub outcomes: BTreeMap<String, usize>,
	pub oracle_failures: Vec<String>,
	pub samples: Vec<String>,
	pub nontrivial: usize,
	pub value_cases: usize,
}

pub fn generate_and_run(seed: u64, tier: &str, cases_w: &mut dyn Write, impl_w: &mut dyn Write) -> Stats {
	std::panic::set_hook(Box::new(|_| {}));
	let mut st = Stats { cases: 0, exhaustive_scripts: 0, max_nodes: 0, outcomes: BTreeMap::new(), oracle_failures: vec![], samples: vec![], nontrivial: 0, value_cases: 0 };
	let mut id = 0usize;
	let mut distinct = std::collections::HashSet::new();
	let mut run_one = |sc: &Script, fails: &BTreeMap<usize, u32>, st: &mut Stats, cases_w: &mut dyn Write, impl_w: &mut dyn Write| {
		let res = run_impl(sc, fails);
		let line = case_line(id, sc, fails);
		writeln!(cases_w, "{line}").unwrap();
		writeln!(impl_w, "{id} {res}").unwrap();
		let outcome = res.split(" | ").next().unwrap_or("").split(':').next().unwrap_or("").to_string();
		*st.outcomes.entry(outcome.clone()).or_insert(0) += 1;
		if let Some(why) = oracle(sc, fails, &res) {
			if st.oracle_failures.len() < 40 {
				st.oracle_failures.push(format!("{line} => {res} :: {why}"));
			}
		}
		if outcome != "ok" && sc.nodes() > 1 && distinct.insert(format!("{} => {res}", line.splitn(3, ' ').nth(2).unwrap_or(""))) {
			st.nontrivial += 1;
		}
		if st.samples.len() < 5 && id % 7013 == 11 {
			st.samples.push(format!("{line} => {res}"));
		}
		id += 1;
		if fails.is_empty() {
			// the same document through the borrowed Value
			let vres = run_value(sc);
			writeln!(cases_w, "{}", value_line(id, sc)).unwrap();
			writeln!(impl_w, "{id} {vres}").unwrap();
			st.value_cases += 1;
			id += 1;
		}
	};
	// (a) every script up to a node bound over a reduced vocabulary x every single serializer fault position
	let max_nodes = if tier == "thorough" { 5 } else { 4 };
	st.max_nodes = max_nodes;
	let leafs = vec![Script::Scalar(10, 1), Script::Fail(30)];
	for n in 1..=max_nodes {
		for sc in enumerate(n, &leafs) {
			st.exhaustive_scripts += 1;
			let none = BTreeMap::new();
			run_one(&sc, &none, &mut st, cases_w, impl_w);
			// number of serializer steps in the fault-free run bounds the useful fault positions
			let steps = {
				let s = RefCell::new(SerState { counter: 0, log: vec![], fails: BTreeMap::new(), element_twice: false });
				let _ = catch_unwind(AssertUnwindSafe(|| xt::verif::transcode(RecSer(&s), ScriptDe(&sc))));
				let c = s.borrow().counter;
				c
			};
			for k in 0..=steps {
				let mut f = BTreeMap::new();
				f.insert(k, 7);
				run_one(&sc, &f, &mut st, cases_w, impl_w);
			}
		}
	}
	// (b) all 17 visit methods with boundary payloads
	for m in 0..17u8 {
		for p in [0u64, 1, 0x7f, 0x80, 0xff, 0x7fff, 0x8000, 0xffff, 0x7fff_ffff, 0x8000_0000, 0xffff_ffff, 0x7fff_ffff_ffff_ffff, 0x8000_0000_0000_0000, u64::MAX] {
			let bits = match m { 0 => 0, 1 => 1, 2 | 7 => 8, 3 | 8 => 16, 4 | 9 | 12 => 32, 14 => 15, _ => 64 };
			if bits < 64 && p >= (1u64 << bits).max(1) { continue; }
			let none = BTreeMap::new();
			run_one(&Script::Scalar(m, p), &none, &mut st, cases_w, impl_w);
			run_one(&Script::Seq(Some(1), vec![Script::Scalar(m, p)], None, None), &none, &mut st, cases_w, impl_w);
			run_one(&Script::Map(None, vec![(Script::Scalar(m, p), Script::Scalar(m, p))], None, None), &none, &mut st, cases_w, impl_w);
		}
	}
	// (c) random larger scripts with several fault positions
	let mut rng = Rng::new(seed ^ 0x7472);
	let n_rand = if tier == "thorough" { 200_000 } else { 20_000 };
	for _ in 0..n_rand {
		let depth = 1 + rng.below(5) as usize;
		let sc = random_script(&mut rng, depth);
		let mut f = BTreeMap::new();
		for _ in 0..rng.below(3) {
			f.insert(rng.below(40) as usize, 90 + rng.below(9) as u32);
		}
		run_one(&sc, &f, &mut st, cases_w, impl_w);
	}
	st.cases = id;
	st
}
