//! Verification harness for xt: runs the implementation on generated cases and
//! prints results in the canonical form the Gallina model driver also prints.
mod util;
mod session;
mod tokens;
mod stream;

#[global_allocator]
static GLOBAL: stream::Counting = stream::Counting;
#[cfg(feature = "hooks")]
mod handle;
#[cfg(feature = "hooks")]
mod msgpack;
#[cfg(feature = "hooks")]
mod utf;
#[cfg(feature = "hooks")]
mod transcode;
#[cfg(feature = "hooks")]
mod chunker;
#[cfg(feature = "hooks")]
mod mem;

use std::fs::File;
use std::io::{BufWriter, Write};

fn arg(args: &[String], name: &str, default: &str) -> String {
	args.iter()
		.position(|a| a == name)
		.and_then(|i| args.get(i + 1))
		.cloned()
		.unwrap_or_else(|| default.to_string())
}

fn read_corpus(path: &str) -> Vec<String> {
	std::fs::read_to_string(path)
		.map(|s| s.lines().filter(|l| !l.starts_with('#') && !l.trim().is_empty()).map(|l| l.to_string()).collect())
		.unwrap_or_default()
}

fn main() {
	let args: Vec<String> = std::env::args().collect();
	let cmd = args.get(1).map(String::as_str).unwrap_or("");
	let seed: u64 = arg(&args, "--seed", "1").parse().unwrap_or(1);
	let tier = arg(&args, "--tier", "quick");
	let out = arg(&args, "--out", "/verif/.build/run");
	match cmd {
		#[cfg(feature = "hooks")]
		"handle" => {
			let corpus = read_corpus(&arg(&args, "--corpus", ""));
			let mut cw = BufWriter::new(File::create(format!("{out}/cases.txt")).unwrap());
			let mut iw = BufWriter::new(File::create(format!("{out}/impl.txt")).unwrap());
			let st = handle::generate_and_run(seed, &tier, &corpus, &mut cw, &mut iw);
			cw.flush().unwrap();
			iw.flush().unwrap();
			let j = serde_json::json!({
				"cases": st.cases, "exhaustive_cases": st.exhaustive_cases, "random_cases": st.random_cases,
				"op_hist": st.op_hist, "final_hist": st.fin_hist,
				"distinct_results": st.distinct_results, "nontrivial": st.nontrivial, "samples": st.samples, "oracle_failures": st.oracle_failures,
			});
			println!("{j}");
		}
		#[cfg(feature = "hooks")]
		"msgpack" => {
			let mut cw = BufWriter::new(File::create(format!("{out}/cases.txt")).unwrap());
			let mut iw = BufWriter::new(File::create(format!("{out}/impl.txt")).unwrap());
			let st = msgpack::generate_and_run(seed, &tier, &mut cw, &mut iw);
			cw.flush().unwrap();
			iw.flush().unwrap();
			let j = serde_json::json!({
				"cases": st.cases, "kinds": st.kinds, "verdicts": st.verdicts, "nontrivial": st.nontrivial,
				"oracle_failures": st.oracle_failures, "samples": st.samples, "exhaustive_len": st.exhaustive_len,
			});
			println!("{j}");
		}
		#[cfg(feature = "hooks")]
		"utf" => {
			let mut cw = BufWriter::new(File::create(format!("{out}/cases.txt")).unwrap());
			let mut iw = BufWriter::new(File::create(format!("{out}/impl.txt")).unwrap());
			let st = utf::generate_and_run(seed, &tier, &mut cw, &mut iw);
			cw.flush().unwrap();
			iw.flush().unwrap();
			let j = serde_json::json!({
				"cases": st.cases, "kinds": st.kinds, "ends": st.ends, "nontrivial": st.nontrivial,
				"scalars_covered": st.scalars_covered, "exhaustive_scalars": st.exhaustive_scalars,
				"oracle_failures": st.oracle_failures, "samples": st.samples,
			});
			println!("{j}");
		}
		#[cfg(feature = "hooks")]
		"transcode" => {
			let mut cw = BufWriter::new(File::create(format!("{out}/cases.txt")).unwrap());
			let mut iw = BufWriter::new(File::create(format!("{out}/impl.txt")).unwrap());
			let st = transcode::generate_and_run(seed, &tier, &mut cw, &mut iw);
			cw.flush().unwrap();
			iw.flush().unwrap();
			let j = serde_json::json!({
				"cases": st.cases, "exhaustive_scripts": st.exhaustive_scripts, "max_nodes": st.max_nodes,
				"outcomes": st.outcomes, "nontrivial": st.nontrivial, "value_cases": st.value_cases,
				"oracle_failures": st.oracle_failures, "samples": st.samples,
			});
			println!("{j}");
		}
		#[cfg(feature = "hooks")]
		"chunker" => {
			let mut cw = BufWriter::new(File::create(format!("{out}/cases.txt")).unwrap());
			let mut iw = BufWriter::new(File::create(format!("{out}/impl.txt")).unwrap());
			let st = chunker::generate_and_run(seed, &tier, &mut cw, &mut iw);
			cw.flush().unwrap();
			iw.flush().unwrap();
			let j = serde_json::json!({
				"cases": st.cases, "kinds": st.kinds, "docs_hist": st.docs_hist, "nontrivial": st.nontrivial,
				"oracle_failures": st.oracle_failures, "samples": st.samples,
			});
			println!("{j}");
		}
		#[cfg(feature = "hooks")]
		"mem" => {
			let mut cw = BufWriter::new(File::create(format!("{out}/cases.txt")).unwrap());
			let mut iw = BufWriter::new(File::create(format!("{out}/impl.txt")).unwrap());
			let st = mem::generate_and_run(seed, &tier, &mut cw, &mut iw);
			cw.flush().unwrap();
			iw.flush().unwrap();
			let j = serde_json::json!({
				"cases": st.cases, "kinds": st.kinds, "outcomes": st.outcomes, "copies": st.copies, "refusals": st.refusals,
				"parsers": st.parsers, "nontrivial": st.nontrivial, "samples": st.samples,
			});
			println!("{j}");
		}
		"tokens" => {
			let st = tokens::run(seed, &tier);
			let j = serde_json::json!({
				"cases": st.cases, "by_format": st.by_format, "verdicts": st.verdicts, "known_hits": st.known_hits,
				"failures": st.failures, "panics": st.panics, "nontrivial": st.nontrivial, "max_len": st.max_len,
			});
			println!("{j}");
		}
		"serve" => session::serve(),
		_ => {
			eprintln!("unknown subcommand {cmd:?}");
			std::process::exit(64);
		}
	}
}
