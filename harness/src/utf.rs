//! C07/C17: the YAML re-encoder (src/yaml/encoding.rs) against UtfModel.v.
use std::collections::BTreeMap;
use std::io::{BufReader, Read, Write};
use std::panic::{catch_unwind, AssertUnwindSafe};

use crate::util::*;

fn units16(c: u32) -> Vec<u16> {
	if c < 0x10000 {
		vec![c as u16]
	} else {
		let v = c - 0x10000;
		vec![0xD800 + (v >> 10) as u16, 0xDC00 + (v & 0x3FF) as u16]
	}
}

pub fn enc16(units: &[u16], big: bool) -> Vec<u8> {
	units.iter().flat_map(|u| if big { u.to_be_bytes() } else { u.to_le_bytes() }).collect()
}

pub fn enc32(units: &[u32], big: bool) -> Vec<u8> {
	units.iter().flat_map(|u| if big { u.to_be_bytes() } else { u.to_le_bytes() }).collect()
}

/// Reads from the encoder with the given buffer sizes; returns the bytes
/// delivered and how reading ended, in the model driver's notation.
fn drive(mut r: Box<dyn Read + '_>, sizes: &[usize]) -> (Vec<u8>, String) {
	let mut out = vec![];
	for &n in sizes {
		// Fill a buffer of n bytes (several read calls if the reader returns
		// short counts, which the Read contract allows): the observation is the
		// byte stream, not the size of individual reads.
		let mut buf = vec![0xEEu8; n];
		let mut filled = 0;
		loop {
			match r.read(&mut buf[filled..]) {
				Ok(0) if n > 0 && filled == 0 => return (out, "eof".into()),
				Ok(0) => break,
				Ok(k) => {
					filled += k;
					if filled == n {
						break;
					}
				}
				Err(e) => {
					let msg = e.to_string();
					let end = if e.kind() == std::io::ErrorKind::UnexpectedEof {
						"ueof".to_string()
					} else if let Some(rest) = msg.strip_prefix("invalid or unexpected UTF-") {
						// "<bits> code unit 0x<unit> at byte <pos>"
						let f: Vec<&str> = rest.split(' ').collect();
						format!("invalid:{}:{}:{}", f[0], f[3].trim_start_matches("0x"), f[6])
					} else {
						format!("err:{msg}")
					};
					return (out, end);
				}
			}
		}
		out.extend_from_slice(&buf[..filled]);
	}
	(out, "exhausted".into())
}

pub fn run_impl(mode: &str, data: &[u8], sizes: &[usize], cap: usize, sched: Sched) -> String {
	let res = catch_unwind(AssertUnwindSafe(|| {
		let src = BufReader::with_capacity(cap, SchedReader::new(data, sched, None));
		let r: Box<dyn Read> = if mode == "F" {
			match xt::verif::yaml_encoder_from_reader(src) {
				Ok(r) => r,
				Err(e) => return (vec![], format!("err:{e}")),
			}
		} else {
			xt::verif::yaml_encoder_new(src, mode[1..].parse().unwrap())
		};
		drive(r, sizes)
	}));
	match res {
		Ok((out, end)) => format!("{} {}", hex(&out), end),
		Err(_) => "panic".into(),
	}
}

fn is_scalar(c: u32) -> bool {
	c < 0xD800 || (0xE000..=0x10FFFF).contains(&c)
}

pub enum Expect {
	Text(Vec<u8>),
	IllFormed,
	Unspecified,
}

pub struct Stats {
	pub cases: usize,
	pub kinds: BTreeMap<String, usize>,
	pub ends: BTreeMap<String, usize>,
	pub scalars_covered: usize,
	pub oracle_failures: Vec<String>,
	pub samples: Vec<String>,
	pub nontrivial: usize,
	pub exhaustive_scalars: bool,
}

/// The property's oracle for well-formed input: the re-encoder delivers
/// exactly the UTF-8 of the text (minus one leading BOM).
fn expect_utf8(cs: &[u32]) -> Vec<u8> {
	let mut s = String::new();
	for (i, &c) in cs.iter().enumerate() {
		if i == 0 && c == 0xFEFF {
			continue;
		}
		s.push(char::from_u32(c).unwrap());
	}
	s.into_bytes()
}

pub fn generate_and_run(seed: u64, tier: &str, cases_w: &mut dyn Write, impl_w: &mut dyn Write) -> Stats {
	let mut st = Stats {
		cases: 0,
		kinds: BTreeMap::new(),
		ends: BTreeMap::new(),
		scalars_covered: 0,
		oracle_failures: vec![],
		samples: vec![],
		nontrivial: 0,
		exhaustive_scalars: tier == "thorough",
	};
	let mut rng = Rng::new(seed ^ 0x757466);
	let mut id = 0usize;
	// (mode, data, sizes, kind, expected utf8 if well-formed)
	let mut emit = |mode: String, data: Vec<u8>, sizes: Vec<usize>, kind: &str, expect: Expect, st: &mut Stats, rng: &mut Rng,
	                cases_w: &mut dyn Write, impl_w: &mut dyn Write| {
		let cap = *rng.pick(&[1usize, 2, 3, 5, 8, 8192]);
		let sched = match rng.below(3) {
			0 => Sched::Fixed(1),
			1 => Sched::Random { seed: rng.next(), max: 7 },
			_ => Sched::Full,
		};
		let res = run_impl(&mode, &data, &sizes, cap, sched);
		let ss: Vec<String> = sizes.iter().map(|s| s.to_string()).collect();
		writeln!(cases_w, "UR {id} {mode} {} {}", hex(&data), ss.join(",")).unwrap();
		writeln!(impl_w, "{id} {res}").unwrap();
		*st.kinds.entry(kind.to_string()).or_insert(0) += 1;
		if res == "panic" {
			// a panic inside the re-encoder is the implementation's failure on this input, not the harness's
			*st.ends.entry("panic".to_string()).or_insert(0) += 1;
			if st.oracle_failures.len() < 40 {
				st.oracle_failures.push(format!("UR {mode} {} sizes {} => the re-encoder panicked", hex(&data), ss.join(",")));
			}
			st.nontrivial += 1;
			id += 1;
			return;
		}
		let end = res.rsplit(' ').next().unwrap_or("").split(':').next().unwrap_or("").to_string();
		*st.ends.entry(end.clone()).or_insert(0) += 1;
		if let Expect::Text(exp) = &expect {
			let got = unhex(res.split(' ').next().unwrap_or("-"));
			let total: usize = sizes.iter().sum();
			let ok = if end == "eof" { got == *exp } else { end == "exhausted" && exp.starts_with(&got) && (got.len() == total.min(exp.len())) };
			if !ok && st.oracle_failures.len() < 40 {
				st.oracle_failures.push(format!("UR {mode} {} sizes {} => {res}; expected the UTF-8 text {}", hex(&data), ss.join(","), hex(&exp)));
			}
			if !exp.is_empty() {
				st.nontrivial += 1;
			}
		} else if let Expect::IllFormed = expect {
			// ill-formed: must end in an error, and what was delivered must be valid UTF-8 prefix material
			let got = unhex(res.split(' ').next().unwrap_or("-"));
			let fabricated = got.windows(3).any(|w| w == [0xEF, 0xBF, 0xBD]);
			if !(end == "invalid" || end == "ueof" || end == "exhausted") || fabricated {
				if st.oracle_failures.len() < 40 {
					st.oracle_failures.push(format!("UR {mode} {} (ill-formed) => {res}: not reported as an error", hex(&data)));
				}
			}
			st.nontrivial += 1;
		}
		if st.samples.len() < 5 && id % 9973 == 1 {
			st.samples.push(format!("UR {mode} {} sizes {} => {res}", hex(&data), ss.join(",")));
		}
		id += 1;
	};
	let sizes_for = |rng: &mut Rng, need: usize| -> Vec<usize> {
		let k = 1 + rng.below(9) as usize;
		let mut v = vec![];
		let mut total = 0;
		while total < need + 8 {
			let n = match rng.below(4) { 0 => k, 1 => 1 + rng.below(9) as usize, 2 => k, _ => if rng.chance(1, 10) { 0 } else { k } };
			v.push(n);
			total += n;
			if v.len() > 4 * need + 40 { break; }
		}
		v.push(k.max(1));
		v.push(k.max(1));
		v
	};

	// (1) scalar values in batches: every scalar (thorough) or edges + a sample (quick)
	let mut scalars: Vec<u32> = vec![];
	if tier == "thorough" {
		scalars.extend((0..=0x10FFFFu32).filter(|c| is_scalar(*c)));
	} else {
		for e in [0u32, 1, 0x7F, 0x80, 0x7FF, 0x800, 0xD7FF, 0xE000, 0xFEFF, 0xFFFD, 0xFFFE, 0xFFFF, 0x10000, 0x10001, 0xFFFFF, 0x100000, 0x10FFFE, 0x10FFFF] {
			for d in 0..3u32 {
				for c in [e.wrapping_sub(d), e + d] {
					if is_scalar(c) {
						scalars.push(c);
					}
				}
			}
		}
		for _ in 0..20_000 {
			let c = match rng.below(4) { 0 => rng.below(0x800) as u32, 1 => rng.below(0x10000) as u32, _ => rng.below(0x110000) as u32 };
			if is_scalar(c) {
				scalars.push(c);
			}
		}
	}
	st.scalars_covered = scalars.len();
	for chunk in scalars.chunks(48) {
		let enc_i = 1 + rng.below(4);
		let passes: Vec<u64> = if tier == "thorough" { vec![1, 2, 3, 4] } else { vec![enc_i] };
		for e in passes {
			let mut cs: Vec<u32> = chunk.to_vec();
			let bom = rng.chance(1, 2);
			if bom {
				cs.insert(0, 0xFEFF);
			}
			let (wide, big) = match e { 1 => (false, true), 2 => (true, true), 3 => (false, false), _ => (true, false) };
			let data = if wide { enc32(&cs, big) } else { enc16(&cs.iter().flat_map(|c| units16(*c)).collect::<Vec<_>>(), big) };
			let exp = expect_utf8(&cs);
			let sizes = sizes_for(&mut rng, exp.len());
			emit(format!("N{e}"), data, sizes, "scalars", Expect::Text(exp), &mut st, &mut rng, cases_w, impl_w);
		}
	}
	// (2) ill-formed one- and two-unit classes
	let surr_edges: Vec<u16> = vec![0xD7FF, 0xD800, 0xD801, 0xDBFE, 0xDBFF, 0xDC00, 0xDC01, 0xDFFE, 0xDFFF, 0xE000, 0x0041, 0xFFFF, 0xFEFF];
	let mut ill16: Vec<Vec<u16>> = vec![];
	for &a in &surr_edges {
		ill16.push(vec![a]);
		for &b in &surr_edges {
			ill16.push(vec![a, b]);
			ill16.push(vec![0x41, a, b]);
			ill16.push(vec![a, b, 0x41]);
		}
	}
	let n_rand_ill = if tier == "thorough" { 60_000 } else { 4_000 };
	for _ in 0..n_rand_ill {
		let a = 0xD800 + rng.below(0x800) as u16;
		let b = match rng.below(3) { 0 => 0xD800 + rng.below(0x800) as u16, 1 => rng.below(0x10000) as u16, _ => 0xDC00 + rng.below(0x400) as u16 };
		let mut v = vec![];
		for _ in 0..rng.below(3) { v.push(0x61 + rng.below(20) as u16); }
		v.push(a);
		if rng.chance(3, 4) { v.push(b); }
		for _ in 0..rng.below(3) { v.push(0x61 + rng.below(20) as u16); }
		ill16.push(v);
	}
	for units in &ill16 {
		let wf = String::from_utf16(units).is_ok();
		for big in [true, false] {
			let mut data = enc16(units, big);
			let odd = rng.chance(1, 6);
			if odd { data.push(0x00); }
			let exp = if wf && !odd { Expect::Text(expect_utf8(&char::decode_utf16(units.iter().copied()).map(|c| c.unwrap() as u32).collect::<Vec<_>>())) } else { Expect::IllFormed };
			let sizes = sizes_for(&mut rng, 3 * units.len() + 4);
			emit(format!("N{}", if big { 1 } else { 3 }), data, sizes, "utf16-edge", exp, &mut st, &mut rng, cases_w, impl_w);
		}
	}
	for &u in &[0xD7FFu32, 0xD800, 0xDBFF, 0xDC00, 0xDFFF, 0xE000, 0x10FFFF, 0x110000, 0x110001, 0xFFFFFFFF, 0x80000000, 0x00FFFFFF, 0x01000000] {
		for big in [true, false] {
			for pre in [vec![], vec![0x41u32], vec![0xFEFF, 0x41]] {
				let mut cs = pre.clone();
				cs.push(u);
				cs.push(0x42);
				let wf = cs.iter().all(|c| is_scalar(*c));
				let mut data = enc32(&cs, big);
				for trunc in [0usize, 1, 2, 3] {
					let mut d2 = data.clone();
					d2.truncate(data.len() - trunc);
					let exp = if wf && trunc == 0 { Expect::Text(expect_utf8(&cs)) } else { Expect::IllFormed };
					let sizes = sizes_for(&mut rng, 16);
					emit(format!("N{}", if big { 2 } else { 4 }), d2, sizes, "utf32-edge", exp, &mut st, &mut rng, cases_w, impl_w);
				}
				data.clear();
			}
		}
	}
	// (3) from_reader: detection + re-encoding of texts that start with ASCII or a BOM
	let n_texts = if tier == "thorough" { 40_000 } else { 4_000 };
	for _ in 0..n_texts {
		let mut cs: Vec<u32> = vec![];
		if rng.chance(1, 2) { cs.push(0xFEFF); }
		let first_ascii = !cs.is_empty() || true;
		let len = rng.below(12) as usize;
		for i in 0..len {
			let c = if i == 0 && first_ascii { 0x20 + rng.below(0x5F) as u32 } else {
				match rng.below(5) { 0 => 0x20 + rng.below(0x5F) as u32, 1 => 0x80 + rng.below(0x780) as u32, 2 => 0x800 + rng.below(0xF000) as u32, 3 => 0x10000 + rng.below(0x100000) as u32, _ => 0x0A }
			};
			if is_scalar(c) && c != 0 { cs.push(c); }
		}
		let e = rng.below(5);
		let data = match e {
			0 => { let mut s = String::new(); for &c in &cs { s.push(char::from_u32(c).unwrap()); } s.into_bytes() }
			1 => enc16(&cs.iter().flat_map(|c| units16(*c)).collect::<Vec<_>>(), true),
			2 => enc32(&cs, true),
			3 => enc16(&cs.iter().flat_map(|c| units16(*c)).collect::<Vec<_>>(), false),
			_ => enc32(&cs, false),
		};
		// Detection is specified for texts that start with a BOM or an ASCII character followed by a non-NUL
		// character (YAML 1.2 section 5.2); shorter texts are passed to the model without an expectation.
		let nonbom: Vec<u32> = cs.iter().copied().skip_while(|c| *c == 0xFEFF).collect();
		let has_bom = cs.first() == Some(&0xFEFF);
		let determined = has_bom || nonbom.len() >= 2 || (e == 0);
		let exp = if e == 0 {
			Expect::Text({ let mut s = String::new(); for &c in &cs { s.push(char::from_u32(c).unwrap()); } s.into_bytes() })
		} else if determined { Expect::Text(expect_utf8(&cs)) } else { Expect::Unspecified };
		let sizes = sizes_for(&mut rng, 4 * cs.len() + 4);
		let kind = if let Expect::Text(_) = exp { "text-detected" } else { "text-short" };
		// a UTF-8 text with a BOM is passed through unchanged (the BOM is kept): expectation above accounts for it
		emit("F".into(), data, sizes, kind, exp, &mut st, &mut rng, cases_w, impl_w);
	}
	// (4) detect(): all prefixes over a small alphabet up to length 5
	let alpha: [u8; 6] = [0x00, 0x41, 0xFE, 0xFF, 0xEF, 0x80];
	let mut frontier: Vec<Vec<u8>> = vec![vec![]];
	let mut all: Vec<Vec<u8>> = vec![vec![]];
	for _ in 0..5 {
		let mut next = vec![];
		for p in &frontier { for b in alpha { let mut q = p.clone(); q.push(b); next.push(q); } }
		all.extend(next.iter().cloned());
		frontier = next;
	}
	for p in &all {
		writeln!(cases_w, "UD {id} {}", hex(p)).unwrap();
		writeln!(impl_w, "{id} {}", xt::verif::yaml_encoding_detect(p)).unwrap();
		*st.kinds.entry("detect".into()).or_insert(0) += 1;
		id += 1;
	}
	st.cases = id;
	st
}
