//! C09/C02: the rewindable input handle against the Gallina model (InputModel.v).
//! Emits one case line (for the model driver) and one implementation result
//! line per case, in the same canonical form.
use std::collections::BTreeMap;
use std::io::{Read, Write};

use crate::util::*;
use xt::verif::{Handle, Input};

#[derive(Clone, Debug)]
pub enum Op {
	Reborrow,
	Read(usize),
	Prefix(usize),
}

#[derive(Clone, Debug)]
pub struct Case {
	pub reader: bool,
	pub data: Vec<u8>,
	pub fault: Option<usize>,
	pub caps: Vec<usize>,
	pub ops: Vec<Op>,
	pub fin_cow: bool,
	pub drain_seed: u64,
}

impl Case {
	pub fn line(&self, id: usize) -> String {
		let ops: Vec<String> = self
			.ops
			.iter()
			.map(|o| match o {
				Op::Reborrow => "b".to_string(),
				Op::Read(n) => format!("r{n}"),
				Op::Prefix(n) => format!("p{n}"),
			})
			.collect();
		let caps: Vec<String> = self.caps.iter().map(|c| c.to_string()).collect();
		format!(
			"H {id} {} {} {} {} {} {}",
			if self.reader { "R" } else { "S" },
			hex(&self.data),
			self.fault.map_or("-".to_string(), |k| k.to_string()),
			if caps.is_empty() { "-".to_string() } else { caps.join(",") },
			if ops.is_empty() { "-".to_string() } else { ops.join(",") },
			if self.fin_cow { "C" } else { "I" },
		)
	}
}

fn show_err(tag: &str, e: &std::io::Error) -> String {
	match fault_of(&e.to_string()) {
		Some(k) => format!("{tag}:err:{k}"),
		None => format!("{tag}:err:?{e}"),
	}
}

pub fn run_impl(c: &Case) -> String {
	let mut out: Vec<String> = vec![];
	let mut h = if c.reader {
		Handle::from_reader(SchedReader::new(&c.data, Sched::ByOffset(c.caps.clone()), c.fault))
	} else {
		Handle::from_slice(&c.data)
	};
	// Split the program at re-borrows; each segment runs on one Ref.
	let mut segments: Vec<Vec<&Op>> = vec![vec![]];
	for op in &c.ops {
		if let Op::Reborrow = op {
			segments.push(vec![]);
		} else {
			segments.last_mut().unwrap().push(op);
		}
	}
	for (i, seg) in segments.iter().enumerate() {
		let mut r = h.borrow_mut();
		if i > 0 {
			out.push(if r.as_slice().is_some() { "B:slice" } else { "B:reader" }.to_string());
		}
		for op in seg {
			match op {
				Op::Read(n) => {
					let mut buf = vec![0xAAu8; *n];
					match r.read(&mut buf) {
						None => out.push("N".to_string()),
						Some(Ok(k)) => out.push(format!("R:ok:{}", hex(&buf[..k]))),
						Some(Err(e)) => out.push(show_err("R", &e)),
					}
				}
				Op::Prefix(n) => match r.prefix(*n) {
					Ok(b) => out.push(format!("P:ok:{}", hex(b))),
					Err(e) => out.push(show_err("P", &e)),
				},
				Op::Reborrow => unreachable!(),
			}
		}
	}
	if c.fin_cow {
		match h.into_cow() {
			Ok(b) => out.push(format!("FC:ok:{}", hex(&b))),
			Err(e) => out.push(show_err("FC", &e)),
		}
	} else {
		match h.into_input() {
			Input::Slice(b) => out.push(format!("FS:{}", hex(&b))),
			Input::Reader(mut r) => {
				let mut rng = Rng::new(c.drain_seed);
				let mut got = vec![];
				let tail = loop {
					let n = if rng.chance(1, 8) { 0 } else { 1 + rng.below(7) as usize };
					let mut buf = vec![0u8; n];
					match r.read(&mut buf) {
						Ok(0) if n > 0 => break "eof".to_string(),
						Ok(k) => got.extend_from_slice(&buf[..k]),
						Err(e) => {
							break match fault_of(&e.to_string()) {
								Some(k) => format!("err:{k}"),
								None => format!("err:?{e}"),
							}
						}
					}
				};
				out.push(format!("FR:{}:{}", hex(&got), tail));
			}
		}
	}
	out.join(" ")
}


/// The property's own oracle, stated on the implementation's observations
/// without reference to the model (mirrors trace_ok / final_ok of
/// InputProofs.v): reads within a borrow return consecutive bytes of the data
/// from offset 0 with no gap or duplicate; a prefix request returns a true
/// prefix of at least min(n, len) bytes; ownership yields the complete data;
/// errors appear only as the injected fault, and only if it lies within the
/// data; slice mode is entered only after a genuine EOF.
pub fn oracle(c: &Case, res: &str) -> Option<String> {
	let d = &c.data;
	let fault_in = c.fault.filter(|k| *k <= d.len());
	let toks: Vec<&str> = res.split(' ').collect();
	let nobs = c.ops.len();
	if toks.len() != nobs + 1 {
		return Some(format!("expected {} observations, got {}", nobs + 1, toks.len()));
	}
	let mut sl = !c.reader; // the initial borrow of a fresh reader handle is reader mode
	let mut p: Option<usize> = Some(0);
	let errk = |t: &str| -> Option<usize> { t.rsplit(':').next().and_then(|x| x.parse().ok()) };
	for (op, t) in c.ops.iter().zip(&toks) {
		match op {
			Op::Reborrow => {
				sl = match *t {
					"B:slice" => true,
					"B:reader" => false,
					_ => return Some(format!("bad borrow observation {t}")),
				};
				if sl && c.reader && fault_in.is_some() {
					return Some("slice mode although the source never reached EOF".into());
				}
				if !c.reader && !sl {
					return Some("slice handle borrowed as reader".into());
				}
				p = Some(0);
			}
			Op::Read(n) => {
				if *t == "N" {
					if !sl {
						return Some("read refused on a reader-mode borrow".into());
					}
				} else if let Some(h) = t.strip_prefix("R:ok:") {
					if sl {
						return Some("read served on a slice-mode borrow".into());
					}
					let bs = unhex(h);
					if let Some(q) = p {
						if bs.len() > *n || q + bs.len() > d.len() || d[q..q + bs.len()] != bs[..] {
							return Some(format!("read({n}) at cursor {q} returned {h}, not the next bytes of the data"));
						}
						if bs.is_empty() && *n > 0 && q != d.len() {
							return Some(format!("read({n}) at cursor {q} returned 0 bytes before the end of the data"));
						}
						p = Some(q + bs.len());
					}
				} else if t.starts_with("R:err:") {
					if errk(t) != fault_in || fault_in.is_none() {
						return Some(format!("read error {t} that is not the injected source fault"));
					}
					p = None;
				} else {
					return Some(format!("bad read observation {t}"));
				}
			}
			Op::Prefix(n) => {
				if let Some(h) = t.strip_prefix("P:ok:") {
					let bs = unhex(h);
					if sl {
						if bs != *d {
							return Some("slice-mode prefix is not the complete data".into());
						}
					} else if bs.len() > d.len() || d[..bs.len()] != bs[..] || bs.len() < (*n).min(d.len()) {
						return Some(format!("prefix({n}) returned {h}: not a prefix of the data of at least min(n, len) bytes"));
					}
				} else if t.starts_with("P:err:") {
					if errk(t) != fault_in || fault_in.is_none() {
						return Some(format!("prefix error {t} that is not the injected source fault"));
					}
				} else {
					return Some(format!("bad prefix observation {t}"));
				}
			}
		}
	}
	let fin = toks[nobs];
	if let Some(h) = fin.strip_prefix("FS:") {
		if unhex(h) != *d || (c.reader && fault_in.is_some()) {
			return Some(format!("ownership as slice {h}: not the complete data after a genuine EOF"));
		}
	} else if let Some(rest) = fin.strip_prefix("FR:") {
		let (h, tail) = rest.split_once(':').unwrap_or((rest, ""));
		let bs = unhex(h);
		if tail == "eof" {
			if bs != *d || fault_in.is_some() {
				return Some(format!("owned reader yielded {h} then EOF: not the complete data"));
			}
		} else if errk(tail) != fault_in || fault_in.is_none() || bs[..] != d[..fault_in.unwrap()] {
			return Some(format!("owned reader yielded {h} then {tail}"));
		}
	} else if let Some(h) = fin.strip_prefix("FC:ok:") {
		if unhex(h) != *d || (c.reader && fault_in.is_some()) {
			return Some(format!("into_cow returned {h}: not the complete data"));
		}
	} else if fin.starts_with("FC:err:") {
		if errk(fin) != fault_in || fault_in.is_none() {
			return Some(format!("into_cow error {fin} that is not the injected source fault"));
		}
	} else {
		return Some(format!("bad final observation {fin}"));
	}
	None
}

/// All cap tables for a data length: caps[d] in 0..(len-d) for each offset d
/// (cap = caps[d]+1 bytes), plus one trailing entry.
fn all_chunkings(len: usize) -> Vec<Vec<usize>> {
	let mut res: Vec<Vec<usize>> = vec![vec![]];
	for d in 0..len {
		let mut next = vec![];
		for pre in &res {
			for c in 0..(len - d) {
				let mut v = pre.clone();
				v.push(c);
				next.push(v);
			}
		}
		res = next;
	}
	for v in &mut res {
		v.push(0);
	}
	res
}

fn all_programs(alphabet: &[Op], max_len: usize) -> Vec<Vec<Op>> {
	let mut res: Vec<Vec<Op>> = vec![vec![]];
	let mut frontier: Vec<Vec<Op>> = vec![vec![]];
	for _ in 0..max_len {
		let mut next = vec![];
		for p in &frontier {
			for o in alphabet {
				let mut q = p.clone();
				q.push(o.clone());
				next.push(q);
			}
		}
		res.extend(next.iter().cloned());
		frontier = next;
	}
	res
}

pub struct Stats {
	pub cases: usize,
	pub exhaustive_cases: usize,
	pub random_cases: usize,
	pub op_hist: BTreeMap<String, usize>,
	pub fin_hist: BTreeMap<String, usize>,
	pub distinct_results: usize,
	pub nontrivial: usize,
	pub samples: Vec<String>,
	pub oracle_failures: Vec<String>,
}

/// Generates the cases for a tier, runs the implementation on each, and writes
/// `cases` (for the model driver) and `impl_out`.
pub fn generate_and_run(
	seed: u64,
	tier: &str,
	corpus: &[String],
	cases_w: &mut dyn Write,
	impl_w: &mut dyn Write,
) -> Stats {
	let mut cases: Vec<Case> = vec![];
	const DATA: &[u8] = b"abcd";
	let mut alphabet = vec![Op::Reborrow];
	for n in 0..=5 {
		alphabet.push(Op::Read(n));
		alphabet.push(Op::Prefix(n));
	}
	let (len_nofault, len_fault) = if tier == "thorough" { (4, 3) } else { (3, 2) };
	let progs_nofault = all_programs(&alphabet, len_nofault);
	let progs_fault = all_programs(&alphabet, len_fault);
	for len in 0..=4usize {
		for caps in all_chunkings(len) {
			for fin_cow in [false, true] {
				for ops in &progs_nofault {
					cases.push(Case {
						reader: true,
						data: DATA[..len].to_vec(),
						fault: None,
						caps: caps.clone(),
						ops: ops.clone(),
						fin_cow,
						drain_seed: cases.len() as u64,
					});
				}
				for fault in 0..=len + 1 {
					for ops in &progs_fault {
						cases.push(Case {
							reader: true,
							data: DATA[..len].to_vec(),
							fault: Some(fault),
							caps: caps.clone(),
							ops: ops.clone(),
							fin_cow,
							drain_seed: cases.len() as u64,
						});
					}
				}
			}
		}
		// Slice handles: no schedule, no fault.
		for fin_cow in [false, true] {
			for ops in &progs_fault {
				cases.push(Case {
					reader: false,
					data: DATA[..len].to_vec(),
					fault: None,
					caps: vec![0],
					ops: ops.clone(),
					fin_cow,
					drain_seed: 0,
				});
			}
		}
	}
	let exhaustive_cases = cases.len();

	// Random longer programs over longer data, with and without faults.
	let mut rng = Rng::new(seed);
	let n_random = if tier == "thorough" { 200_000 } else { 20_000 };
	for _ in 0..n_random {
		let len = match rng.below(4) {
			0 => rng.below(6) as usize,
			1 => rng.range(6, 40) as usize,
			2 => rng.range(30, 70) as usize,
			_ => rng.range(0, 20) as usize,
		};
		let data: Vec<u8> = (0..len).map(|_| rng.below(256) as u8).collect();
		let maxcap = *rng.pick(&[1usize, 2, 3, 8, 64]);
		let caps: Vec<usize> = (0..=len).map(|_| rng.below(maxcap as u64) as usize).collect();
		let fault = if rng.chance(1, 3) { Some(rng.below(len as u64 + 3) as usize) } else { None };
		let nops = rng.below(41) as usize;
		let big = len + 5;
		let ops: Vec<Op> = (0..nops)
			.map(|_| match rng.below(10) {
				0 | 1 => Op::Reborrow,
				2..=6 => Op::Read(match rng.below(5) {
					0 => 0,
					1 => 1,
					2 => rng.below(big as u64) as usize,
					3 => rng.below(9) as usize,
					_ => big + rng.below(10) as usize,
				}),
				_ => Op::Prefix(match rng.below(4) {
					0 => rng.below(5) as usize,
					1 => rng.below(big as u64) as usize,
					2 => len,
					_ => big + rng.below(100) as usize,
				}),
			})
			.collect();
		cases.push(Case {
			reader: !rng.chance(1, 10),
			data,
			fault,
			caps,
			ops,
			fin_cow: rng.chance(1, 2),
			drain_seed: rng.next(),
		});
	}

	let mut stats = Stats {
		cases: 0,
		exhaustive_cases,
		random_cases: n_random,
		op_hist: BTreeMap::new(),
		fin_hist: BTreeMap::new(),
		distinct_results: 0,
		nontrivial: 0,
		samples: vec![],
		oracle_failures: vec![],
	};
	let mut distinct = std::collections::HashSet::new();
	let mut id = 0usize;
	// Corpus lines (already in case-line form, without ids) run first.
	for line in corpus {
		if let Some(c) = parse_case_line(line) {
			writeln!(cases_w, "{}", c.line(id)).unwrap();
			let res = run_impl(&c);
			if let Some(why) = oracle(&c, &res) {
				stats.oracle_failures.push(format!("{} => {res} :: {why}", c.line(id)));
			}
			writeln!(impl_w, "{id} {res}").unwrap();
			id += 1;
		}
	}
	for c in &cases {
		let line = c.line(id);
		let res = run_impl(c);
		if let Some(why) = oracle(c, &res) {
			if stats.oracle_failures.len() < 50 {
				stats.oracle_failures.push(format!("{line} => {res} :: {why}"));
			}
		}
		for o in &c.ops {
			let k = match o {
				Op::Reborrow => "reborrow",
				Op::Read(0) => "read0",
				Op::Read(_) => "read",
				Op::Prefix(_) => "prefix",
			};
			*stats.op_hist.entry(k.to_string()).or_insert(0) += 1;
		}
		let fin = res.rsplit(' ').next().unwrap_or("");
		let fk = if fin.starts_with("FS") {
			"into_input:slice"
		} else if fin.contains(":err:") {
			"error"
		} else if fin.starts_with("FR") {
			"into_input:reader"
		} else {
			"into_cow:ok"
		};
		*stats.fin_hist.entry(fk.to_string()).or_insert(0) += 1;
		// Non-trivial: a reader handle whose program contains at least one
		// read or prefix that returned bytes.
		let nontrivial = c.reader && (res.contains("R:ok:") || res.contains("P:ok:")) && !c.data.is_empty();
		if distinct.insert(format!("{} => {res}", &line[line.find(' ').unwrap() + 1..].split_once(' ').unwrap().1)) && nontrivial {
			stats.nontrivial += 1;
		}
		if stats.samples.len() < 5 && (id % 7919 == 13 || (id > exhaustive_cases && stats.samples.len() < 3)) {
			stats.samples.push(format!("{line} => {res}"));
		}
		writeln!(cases_w, "{line}").unwrap();
		writeln!(impl_w, "{id} {res}").unwrap();
		id += 1;
	}
	stats.cases = id;
	stats.distinct_results = distinct.len();
	stats
}

/// Parses a corpus line "H <id> R|S data fault caps ops I|C".
pub fn parse_case_line(line: &str) -> Option<Case> {
	let f: Vec<&str> = line.split_whitespace().collect();
	if f.len() != 8 || f[0] != "H" {
		return None;
	}
	let list = |s: &str| -> Vec<String> {
		if s == "-" { vec![] } else { s.split(',').map(|x| x.to_string()).collect() }
	};
	Some(Case {
		reader: f[2] == "R",
		data: unhex(f[3]),
		fault: f[4].parse().ok(),
		caps: list(f[5]).iter().map(|x| x.parse().unwrap()).collect(),
		ops: list(f[6])
			.iter()
			.map(|o| match &o[..1] {
				"b" => Op::Reborrow,
				"r" => Op::Read(o[1..].parse().unwrap()),
				_ => Op::Prefix(o[1..].parse().unwrap()),
			})
			.collect(),
		fin_cow: f[7] == "C",
		drain_seed: 7,
	})
}
