//! C03/C04/C05: the YAML chunker (src/yaml/chunker.rs) against ChunkerModel.v.
//! The libyaml event stream comes from the `yaml_events` hook, the chunks from
//! the `yaml_chunks` hook; the model turns the former into the latter.
use std::collections::BTreeMap;
use std::io::Write;
use std::panic::{catch_unwind, AssertUnwindSafe};

use crate::tokens::YAML_TOKENS;
use crate::util::*;

fn events_field(data: &[u8], sched: Sched) -> String {
	let evs = catch_unwind(AssertUnwindSafe(|| xt::verif::yaml_events(SchedReader::new(data, sched, None))));
	match evs {
		Err(_) => "P".to_string(),
		Ok(evs) => {
			let mut parts = vec![];
			for (kind, end, pulled) in evs {
				parts.push(match kind {
					3 => "s".to_string(),
					6 => "c".to_string(),
					7 | 9 => "C".to_string(),
					4 => format!("e{end}:{pulled}"),
					2 => "E".to_string(),
					255 => "x".to_string(),
					_ => "o".to_string(),
				});
			}
			if parts.is_empty() { "-".to_string() } else { parts.join(",") }
		}
	}
}

fn chunks_field(data: &[u8], sched: Sched) -> String {
	let res = catch_unwind(AssertUnwindSafe(|| xt::verif::yaml_chunks(SchedReader::new(data, sched, None))));
	match res {
		Err(_) => "panic".to_string(),
		Ok(items) => {
			let mut parts = vec![];
			for it in items {
				match it {
					Ok((text, coll)) => parts.push(format!("d{}:{}", hex(text.as_bytes()), u8::from(coll))),
					Err(_) => parts.push("err".to_string()),
				}
			}
			if parts.is_empty() { "-".to_string() } else { parts.join(",") }
		}
	}
}

pub struct Stats {
	pub cases: usize,
	pub kinds: BTreeMap<String, usize>,
	pub docs_hist: BTreeMap<usize, usize>,
	pub nontrivial: usize,
	pub oracle_failures: Vec<String>,
	pub samples: Vec<String>,
}

const DOCS: [&[u8]; 22] = [
	b"a: 1\n", b"- 1\n- 2\n", b"---\na: 1\n---\nb: 2\n", b"--- 1\n--- 2\n", b"a: 1\n...\n---\nb: 2\n...\n", b"# c\na: 1\n",
	b"%YAML 1.2\n---\na: 1\n", b" - 1\n - 2\n", b"a: 1\n# c\n---\n# d\nb: 2\n", b"a: [1, 2\n", b"*y", b"", b"\n", b"# only\n",
	b"---\n", b"--- \n...\n", b"a: 1\n---\n", b"\xc3\xa9: [\xf0\x9f\x98\x80]\n---\n\xe2\x82\xac\n", b"a: |\n  text\n  more\n---\n- x\n",
	b"? [a, b]\n: c\n", b"&x a: *x\n--- !!str\n...\n", b"\xff\xfe",
];

pub fn generate_and_run(seed: u64, tier: &str, cases_w: &mut dyn Write, impl_w: &mut dyn Write) -> Stats {
	std::panic::set_hook(Box::new(|_| {}));
	let mut st = Stats { cases: 0, kinds: BTreeMap::new(), docs_hist: BTreeMap::new(), nontrivial: 0, oracle_failures: vec![], samples: vec![] };
	let mut rng = Rng::new(seed ^ 0xC4);
	let mut id = 0usize;
	let mut one = |data: &[u8], kind: &str, st: &mut Stats, rng: &mut Rng, cases_w: &mut dyn Write, impl_w: &mut dyn Write| {
		let sched = match rng.below(4) {
			0 => Sched::Fixed(1),
			1 => Sched::Fixed(1 + rng.below(7) as usize),
			2 => Sched::Random { seed: rng.next(), max: 5 },
			_ => Sched::Full,
		};
		// the same read schedule for both runs: where libyaml notices invalid input depends on how much it has read
		let evs = events_field(data, sched.clone());
		let chunks = chunks_field(data, sched);
		writeln!(cases_w, "K {id} {} {evs}", hex(data)).unwrap();
		writeln!(impl_w, "{id} {chunks}").unwrap();
		*st.kinds.entry(kind.to_string()).or_default() += 1;
		let ndocs = chunks.split(',').filter(|p| p.starts_with('d')).count();
		*st.docs_hist.entry(ndocs.min(9)).or_default() += 1;
		if ndocs >= 2 {
			st.nontrivial += 1;
		}
		// the property's own reading: the chunks, concatenated, are a prefix of the stream
		let mut cat = vec![];
		for p in chunks.split(',') {
			if let Some(rest) = p.strip_prefix('d') {
				cat.extend_from_slice(&unhex(rest.split(':').next().unwrap_or("-")));
			}
		}
		if chunks == "panic" || !(cat.len() <= data.len() && data[..cat.len()] == cat[..]) {
			if st.oracle_failures.len() < 30 {
				st.oracle_failures.push(format!("{} :: chunks {} are not consecutive pieces of the stream", hex(data), chunks));
			}
		}
		if st.samples.len() < 4 && id % 977 == 5 {
			st.samples.push(format!("K {id} {} {evs} => {chunks}", hex(data)));
		}
		id += 1;
		// the guard of the in-memory UTF-8 path (chunker::has_document), observed through a whole translation of the slice:
		// "no document" is a translation that succeeds and writes nothing
		if std::str::from_utf8(data).is_ok() && xt::verif::yaml_encoding_detect(&data[..data.len().min(4)]) == 0 {
			let evs_full = events_field(data, Sched::Full);
			let mut out = vec![];
			let r = catch_unwind(AssertUnwindSafe(|| xt::translate_slice(data, Some(xt::Format::Yaml), xt::Format::Json, &mut out).is_ok()));
			let verdict = match r {
				Err(_) => "panic",
				Ok(true) if out.is_empty() => "nodoc",
				Ok(_) => "doc",
			};
			writeln!(cases_w, "KH {id} {evs_full}").unwrap();
			writeln!(impl_w, "{id} {verdict}").unwrap();
			id += 1;
		}
	};
	for d in DOCS {
		one(d, "builtin", &mut st, &mut rng, cases_w, impl_w);
	}
	// every token sequence up to a bound
	let max_len = if tier == "thorough" { 4 } else { 3 };
	let k = YAML_TOKENS.len();
	for len in 1..=max_len {
		let mut idx = vec![0usize; len];
		'outer: loop {
			let mut data = vec![];
			for &i in &idx {
				data.extend_from_slice(YAML_TOKENS[i]);
			}
			one(&data, "token-sequence", &mut st, &mut rng, cases_w, impl_w);
			let mut p = len;
			loop {
				if p == 0 {
					break 'outer;
				}
				p -= 1;
				idx[p] += 1;
				if idx[p] < k {
					break;
				}
				idx[p] = 0;
			}
		}
	}
	// streams of several documents with every separator style, padded to buffer boundaries
	let n = if tier == "thorough" { 4000 } else { 600 };
	for _ in 0..n {
		let mut data = vec![];
		for _ in 0..rng.below(6) {
			if rng.chance(1, 4) {
				data.extend_from_slice(b"# comment\n");
			}
			if rng.chance(3, 4) {
				data.extend_from_slice(if rng.chance(1, 5) { b"--- # c\n" } else { b"---\n" });
			}
			let body = *rng.pick(&DOCS[..10]);
			data.extend_from_slice(body);
			if rng.chance(1, 12) {
				let pad = rng.pick(&[8190usize, 8192, 16383, 16385, 100]).clone();
				data.extend_from_slice(b"k: '");
				data.extend(std::iter::repeat(b'p').take(pad));
				data.extend_from_slice(b"'\n");
			}
			if rng.chance(1, 4) {
				data.extend_from_slice(b"...\n");
			}
		}
		if rng.chance(1, 6) && !data.is_empty() {
			let i = rng.below(data.len() as u64) as usize;
			data[i] = *rng.pick(&[b'[', b':', b'\t', 0xff, b'-', b'\n']);
		}
		one(&data, "streams", &mut st, &mut rng, cases_w, impl_w);
	}
	st.cases = id;
	st
}
