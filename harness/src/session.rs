//! Generic translation sessions: one `Translator`, a sequence of translate
//! calls with instrumented readers and an instrumented writer. Requests and
//! responses are JSON lines; byte strings are hex.
use std::cell::RefCell;
use std::io::{self, BufRead, Read, Write};
use std::panic::{catch_unwind, AssertUnwindSafe};
use std::rc::Rc;

use serde_json::{json, Value};

use crate::util::*;

pub fn parse_format(s: &str) -> Option<xt::Format> {
	match s {
		"json" => Some(xt::Format::Json),
		"msgpack" => Some(xt::Format::Msgpack),
		"toml" => Some(xt::Format::Toml),
		"yaml" => Some(xt::Format::Yaml),
		_ => None,
	}
}

pub fn format_name(f: xt::Format) -> &'static str {
	match f {
		xt::Format::Json => "json",
		xt::Format::Msgpack => "msgpack",
		xt::Format::Toml => "toml",
		xt::Format::Yaml => "yaml",
		_ => "?",
	}
}

pub fn parse_kind(s: Option<&str>) -> io::ErrorKind {
	match s {
		Some("invalid_data") => io::ErrorKind::InvalidData,
		Some("unexpected_eof") => io::ErrorKind::UnexpectedEof,
		Some("broken_pipe") => io::ErrorKind::BrokenPipe,
		Some("would_block") => io::ErrorKind::WouldBlock,
		Some("timed_out") => io::ErrorKind::TimedOut,
		Some("permission_denied") => io::ErrorKind::PermissionDenied,
		_ => io::ErrorKind::Other,
	}
}

pub fn parse_sched(v: &Value) -> Sched {
	match v.get("kind").and_then(Value::as_str) {
		Some("fixed") => Sched::Fixed(v["n"].as_u64().unwrap_or(1).max(1) as usize),
		Some("random") => Sched::Random {
			seed: v["seed"].as_u64().unwrap_or(0),
			max: v["max"].as_u64().unwrap_or(8).max(1) as usize,
		},
		Some("offsets") => Sched::ByOffset(
			v["caps"].as_array().map(|a| a.iter().map(|x| x.as_u64().unwrap_or(0) as usize).collect()).unwrap_or_default(),
		),
		_ => Sched::Full,
	}
}

/// A writer shared between the translator and the trace.
struct SharedWriter(Rc<RefCell<FaultWriter>>);

impl Write for SharedWriter {
	fn write(&mut self, buf: &[u8]) -> io::Result<usize> {
		self.0.borrow_mut().write(buf)
	}
	fn flush(&mut self) -> io::Result<()> {
		self.0.borrow_mut().flush()
	}
}

/// A reader that logs (bytes delivered, bytes accepted by the writer) at every
/// read call.
struct TracingReader {
	inner: SchedReader,
	writer: Rc<RefCell<FaultWriter>>,
	trace: Rc<RefCell<Vec<(usize, usize)>>>,
	enabled: bool,
}

impl Read for TracingReader {
	fn read(&mut self, buf: &mut [u8]) -> io::Result<usize> {
		if self.enabled {
			let w = self.writer.borrow().accepted.len();
			self.trace.borrow_mut().push((self.inner.deliv, w));
		}
		self.inner.read(buf)
	}
}

pub fn run_session(req: &Value) -> Value {
	let to = parse_format(req["to"].as_str().unwrap_or("json")).unwrap_or(xt::Format::Json);
	let writer = Rc::new(RefCell::new(FaultWriter::new()));
	{
		let mut w = writer.borrow_mut();
		w.fault = req.get("wfault").and_then(Value::as_u64).map(|k| k as usize);
		w.fault_kind = parse_kind(req.get("wkind").and_then(Value::as_str));
		if let Some(s) = req.get("wshort") {
			if !s.is_null() {
				w.short = Some(parse_sched(s));
			}
		}
	}
	let want_trace = req.get("trace").and_then(Value::as_bool).unwrap_or(false);
	let want_flush = req.get("flush").and_then(Value::as_bool).unwrap_or(false);
	let trace = Rc::new(RefCell::new(Vec::new()));
	let mut calls_out = vec![];
	let mut tr = xt::Translator::new(SharedWriter(writer.clone()), to);
	let empty = vec![];
	for call in req["calls"].as_array().unwrap_or(&empty) {
		let input = unhex(call["input"].as_str().unwrap_or("-"));
		let from = call.get("from").and_then(Value::as_str).and_then(parse_format);
		let before = writer.borrow().accepted.len();
		let result = catch_unwind(AssertUnwindSafe(|| {
			if call["mode"].as_str() == Some("reader") {
				let sched = call.get("sched").map(parse_sched).unwrap_or(Sched::Full);
				let fault = call.get("rfault").and_then(Value::as_u64).map(|k| k as usize);
				let inner = SchedReader::new(&input, sched, fault)
					.kind(parse_kind(call.get("rkind").and_then(Value::as_str)))
					.style(call.get("rstyle").and_then(Value::as_u64).unwrap_or(0) as u8)
					.interrupt(call.get("rintr").and_then(Value::as_u64).map(|k| k as usize));
				let r = TracingReader {
					inner,
					writer: writer.clone(),
					trace: trace.clone(),
					enabled: want_trace,
				};
				tr.translate_reader(r, from)
			} else {
				tr.translate_slice(&input, from)
			}
		}));
		let after = writer.borrow().accepted.len();
		let mut flush_err = Value::Null;
		if want_flush {
			if let Err(e) = tr.flush() {
				flush_err = json!(e.to_string());
			}
		}
		calls_out.push(match result {
			Ok(Ok(())) => json!({"ok": true, "wrote": after - before, "flush_err": flush_err}),
			Ok(Err(e)) => json!({"ok": false, "err": e.to_string(), "wrote": after - before}),
			Err(p) => {
				let msg = p
					.downcast_ref::<String>()
					.cloned()
					.or_else(|| p.downcast_ref::<&str>().map(|s| s.to_string()))
					.unwrap_or_default();
				json!({"ok": false, "panic": true, "err": msg, "wrote": after - before})
			}
		});
	}
	drop(tr);
	let w = writer.borrow();
	let mut resp = json!({
		"id": req["id"], "calls": calls_out, "out": hex(&w.accepted),
		"flushes": w.flushes, "writes": w.writes,
	});
	if want_trace {
		let t: Vec<Value> = trace.borrow().iter().map(|(d, w)| json!([d, w])).collect();
		resp["trace"] = Value::Array(t);
	}
	resp
}

#[cfg(feature = "hooks")]
pub fn run_detect(req: &Value) -> Value {
	let input = unhex(req["input"].as_str().unwrap_or("-"));
	let res = catch_unwind(AssertUnwindSafe(|| {
		if req["mode"].as_str() == Some("reader") {
			let sched = req.get("sched").map(parse_sched).unwrap_or(Sched::Full);
			let fault = req.get("rfault").and_then(Value::as_u64).map(|k| k as usize);
			let r = SchedReader::new(&input, sched, fault)
				.kind(parse_kind(req.get("rkind").and_then(Value::as_str)));
			xt::verif::detect_reader(r)
		} else {
			xt::verif::detect_slice(&input)
		}
	}));
	match res {
		Ok(Ok(Some(f))) => json!({"id": req["id"], "detected": format_name(f)}),
		Ok(Ok(None)) => json!({"id": req["id"], "detected": null}),
		Ok(Err(e)) => json!({"id": req["id"], "err": e.to_string()}),
		Err(_) => json!({"id": req["id"], "panic": true}),
	}
}

/// The four parser trials of detect.rs, asked directly of the third-party crates the way the xt trials ask them
/// (fully available input), next to what xt's detection answers for a slice and for a reader.
#[cfg(feature = "hooks")]
pub fn run_trials(req: &Value) -> Value {
	use serde::Deserialize;
	let input = unhex(req["input"].as_str().unwrap_or("-"));
	let res = catch_unwind(AssertUnwindSafe(|| {
		let json = match std::str::from_utf8(&input) {
			Ok(s) => {
				let mut de = serde_json::Deserializer::from_str(s);
				serde::de::IgnoredAny::deserialize(&mut de).is_ok()
			}
			Err(_) => false,
		};
		// the reader form of the JSON trial does not validate UTF-8 inside strings it skips
		let json_reader = {
			let mut de = serde_json::Deserializer::from_reader(&input[..]);
			serde::de::IgnoredAny::deserialize(&mut de).is_ok()
		};
		let toml_ok = match std::str::from_utf8(&input) {
			Ok(s) => serde::de::IgnoredAny::deserialize(toml::Deserializer::new(s)).is_ok(),
			Err(_) => false,
		};
		// the YAML trial: re-encode as detected, first chunk must be a collection
		let yaml = match xt::verif::yaml_encoder_from_reader(&input[..]) {
			Ok(r) => match xt::verif::yaml_chunks(r).into_iter().next() {
				Some(Ok((_, coll))) => coll,
				_ => false,
			},
			Err(_) => false,
		};
		// from a reader the YAML trial sees the stream as the read schedule delivers it: libyaml validates characters as it
		// fills its buffer, so a bad byte in a later document is met before or after the first document is handed out
		// depending on how much each read returns (same schedule as the detect_reader call below)
		let yaml_reader = match xt::verif::yaml_encoder_from_reader(io::BufReader::new(SchedReader::new(&input, Sched::Fixed(3), None))) {
			Ok(r) => match xt::verif::yaml_chunks(r).into_iter().next() {
				Some(Ok((_, coll))) => coll,
				_ => false,
			},
			Err(_) => false,
		};
		let ds = xt::verif::detect_slice(&input);
		let dr = xt::verif::detect_reader(SchedReader::new(&input, Sched::Fixed(3), None));
		let show = |d: io::Result<Option<xt::Format>>| match d {
			Ok(Some(f)) => json!(format_name(f)),
			Ok(None) => Value::Null,
			Err(e) => json!(format!("error: {e}")),
		};
		json!({"id": req["id"], "json": json, "json_reader": json_reader, "toml": toml_ok, "yaml": yaml, "yaml_reader": yaml_reader, "detected_slice": show(ds), "detected_reader": show(dr)})
	}));
	match res {
		Ok(v) => v,
		Err(_) => json!({"id": req["id"], "panic": true}),
	}
}

/// Reads JSON requests from stdin, one per line; writes one response per line.
/// Before each case its id is written to stderr so that a crash or hang can be
/// attributed by the caller.
pub fn serve() {
	std::panic::set_hook(Box::new(|_| {}));
	let stdin = io::stdin();
	let stdout = io::stdout();
	let mut out = io::BufWriter::new(stdout.lock());
	for line in stdin.lock().lines() {
		let line = match line {
			Ok(l) => l,
			Err(_) => break,
		};
		if line.trim().is_empty() {
			continue;
		}
		let req: Value = match serde_json::from_str(&line) {
			Ok(v) => v,
			Err(e) => {
				writeln!(out, "{}", json!({"bad_request": e.to_string()})).unwrap();
				continue;
			}
		};
		eprintln!("START {}", req["id"]);
		let resp = match req.get("op").and_then(Value::as_str) {
			#[cfg(feature = "hooks")]
			Some("detect") => run_detect(&req),
			#[cfg(feature = "hooks")]
			Some("trials") => run_trials(&req),
			Some("stream") => crate::stream::run_stream(&req),
			_ => run_session(&req),
		};
		writeln!(out, "{resp}").unwrap();
		out.flush().unwrap();
	}
}
