//! C05: streaming behaviour. A generator reader produces N uniform documents
//! on the fly (nothing is held), in packets of a given size; at every read()
//! call it records how many documents have been completely delivered and how
//! many the writer has completely received; a counting global allocator
//! measures the peak live heap during the translation.
use std::alloc::{GlobalAlloc, Layout, System};
use std::cell::Cell;
use std::io::{self, Read, Write};
use std::panic::{catch_unwind, AssertUnwindSafe};
use std::rc::Rc;
use std::sync::atomic::{AtomicUsize, Ordering};

use serde_json::{json, Value};

pub struct Counting;

static LIVE: AtomicUsize = AtomicUsize::new(0);
static PEAK: AtomicUsize = AtomicUsize::new(0);

unsafe impl GlobalAlloc for Counting {
	unsafe fn alloc(&self, layout: Layout) -> *mut u8 {
		let p = unsafe { System.alloc(layout) };
		if !p.is_null() {
			let live = LIVE.fetch_add(layout.size(), Ordering::Relaxed) + layout.size();
			PEAK.fetch_max(live, Ordering::Relaxed);
		}
		p
	}
	unsafe fn dealloc(&self, ptr: *mut u8, layout: Layout) {
		unsafe { System.dealloc(ptr, layout) };
		LIVE.fetch_sub(layout.size(), Ordering::Relaxed);
	}
	unsafe fn realloc(&self, ptr: *mut u8, layout: Layout, new_size: usize) -> *mut u8 {
		let p = unsafe { System.realloc(ptr, layout, new_size) };
		if !p.is_null() {
			if new_size >= layout.size() {
				let live = LIVE.fetch_add(new_size - layout.size(), Ordering::Relaxed) + (new_size - layout.size());
				PEAK.fetch_max(live, Ordering::Relaxed);
			} else {
				LIVE.fetch_sub(layout.size() - new_size, Ordering::Relaxed);
			}
		}
		p
	}
}

/// One document of the stream, `size` bytes exactly (size >= 40).  "yaml16" / "yaml32": the YAML document in
/// UTF-16LE / UTF-32LE without a byte order mark (size a multiple of 2 / 4).
fn make_doc(format: &str, i: usize, size: usize) -> Vec<u8> {
	let unit = match format {
		"yaml16" => 2,
		"yaml32" => 4,
		_ => 1,
	};
	if unit > 1 {
		let narrow = make_doc("yaml", i, size / unit);
		let mut d = Vec::with_capacity(size);
		for b in narrow {
			d.push(b);
			d.extend(std::iter::repeat(0u8).take(unit - 1));
		}
		return d;
	}
	let index = i;
	let i = 1_000_000_000 + i % 1_000_000_000; // fixed width in every output format
	match format {
		"json" => {
			let head = format!("{{\"i\":{},\"p\":\"", i);
			let tail = "\"}\n";
			let pad = size - head.len() - tail.len();
			let mut d = head.into_bytes();
			d.extend(std::iter::repeat(b'x').take(pad));
			d.extend_from_slice(tail.as_bytes());
			d
		}
		"yamlx" => {
			// a directive, an anchored and tagged collection and an alias: events that own heap data in libyaml
			let head = format!("%YAML 1.2\n---\nd: &d !!map\n  i: {}\n  p: '", i);
			let tail = "'\ne: *d\n...\n";
			let pad = size - head.len() - tail.len();
			let mut d = head.into_bytes();
			d.extend(std::iter::repeat(b'y').take(pad));
			d.extend_from_slice(tail.as_bytes());
			d
		}
		"yamls" => {
			// scalar documents (document 0 is a mapping of the same input and JSON output size, so that the stream is
			// detected as YAML): `--- 'i<i> yyy'`
			// scalar: input 19 + pad bytes, JSON output pad + 15; mapping: input 25 + pad0, JSON output pad0 + 21
			let (head, pad) = if index == 0 {
				(format!("---\ni:    'i{} ", i), size - 25)
			} else {
				(format!("--- 'i{} ", i), size - 19)
			};
			let mut d = head.into_bytes();
			d.extend(std::iter::repeat(b'y').take(pad));
			d.extend_from_slice(b"'\n");
			d
		}
		"yamlf" => {
			// flow sequences, the first one starting at byte 0 with '[' and no document marker
			let head = if index == 0 { format!("[alpha,     {}, '", i) } else { format!("--- [alpha, {}, '", i) };
			let tail = "']\n";
			let pad = size - head.len() - tail.len();
			let mut d = head.into_bytes();
			d.extend(std::iter::repeat(b'y').take(pad));
			d.extend_from_slice(tail.as_bytes());
			d
		}
		"yamlb" => {
			// UTF-8 behind a byte order mark; the first document implicit (no `---`), flow mappings of one line each (a block
			// mapping behind a byte order mark is refused by the parser: the mark counts as a column)
			let head = if index == 0 { format!("\u{feff} {{i: {}, p: '", i) } else { format!("--- {{i: {}, p: '", i) };
			let tail = "'}\n";
			let pad = size - head.len() - tail.len();
			let mut d = head.into_bytes();
			d.extend(std::iter::repeat(b'y').take(pad));
			d.extend_from_slice(tail.as_bytes());
			d
		}
		"yaml" => {
			let head = format!("---\ni: {}\np: '", i);
			let tail = "'\n";
			let pad = size - head.len() - tail.len();
			let mut d = head.into_bytes();
			d.extend(std::iter::repeat(b'y').take(pad));
			d.extend_from_slice(tail.as_bytes());
			d
		}
		_ => {
			// {"i": u32, "p": str32}
			let mut d = vec![0x82, 0xa1, b'i', 0xce];
			d.extend_from_slice(&(i as u32).to_be_bytes());
			d.extend_from_slice(&[0xa1, b'p', 0xdb]);
			let pad = size - d.len() - 4;
			d.extend_from_slice(&(pad as u32).to_be_bytes());
			d.extend(std::iter::repeat(b'z').take(pad));
			d
		}
	}
}

struct GenReader {
	format: String,
	n: usize,
	size: usize,
	first: usize, // size of document 0 (the others have `size`)
	out_first: usize, // output bytes of document 0
	packet: usize,
	pos: usize, // bytes delivered
	cur: Vec<u8>,
	cur_index: usize,
	written: Rc<Cell<usize>>,
	out_doc: Rc<Cell<usize>>, // output bytes per document (learned from the first one)
	max_lag: Rc<Cell<i64>>,
	reads: Rc<Cell<usize>>,
}

impl Read for GenReader {
	fn read(&mut self, buf: &mut [u8]) -> io::Result<usize> {
		self.reads.set(self.reads.get() + 1);
		// documents completely delivered vs completely written, at the moment more input is asked for
		let delivered_docs = if self.pos < self.first { 0 } else { 1 + (self.pos - self.first) / self.size };
		let out_doc = self.out_doc.get();
		if out_doc > 0 {
			let w = self.written.get();
			let written_docs = if w < self.out_first { 0 } else { 1 + (w - self.out_first) / out_doc };
			let lag = delivered_docs as i64 - written_docs as i64;
			if lag > self.max_lag.get() {
				self.max_lag.set(lag);
			}
		} else if delivered_docs >= 3 && self.written.get() == 0 {
			self.max_lag.set(self.max_lag.get().max(delivered_docs as i64));
		}
		let total = self.first + (self.n - 1) * self.size;
		if self.n == 0 || self.pos >= total || buf.is_empty() {
			return Ok(0);
		}
		let (idx, off, len) = if self.pos < self.first {
			(0, self.pos, self.first)
		} else {
			(1 + (self.pos - self.first) / self.size, (self.pos - self.first) % self.size, self.size)
		};
		if idx != self.cur_index || self.cur.is_empty() {
			self.cur = make_doc(&self.format, idx, len);
			self.cur_index = idx;
		}
		let n = buf.len().min(self.packet).min(len - off);
		buf[..n].copy_from_slice(&self.cur[off..off + n]);
		self.pos += n;
		Ok(n)
	}
}

struct CountWriter {
	written: Rc<Cell<usize>>,
}

impl Write for CountWriter {
	fn write(&mut self, buf: &[u8]) -> io::Result<usize> {
		self.written.set(self.written.get() + buf.len());
		Ok(buf.len())
	}
	fn flush(&mut self) -> io::Result<()> {
		Ok(())
	}
}

pub fn run_stream(req: &Value) -> Value {
	let format = req["format"].as_str().unwrap_or("json").to_string();
	let to = crate::session::parse_format(req["to"].as_str().unwrap_or("json")).unwrap_or(xt::Format::Json);
	let n = req["n"].as_u64().unwrap_or(100) as usize;
	let size = (req["size"].as_u64().unwrap_or(64) as usize).max(48);
	let packet = (req["packet"].as_u64().unwrap_or(size as u64) as usize).max(1);
	let fmt_name = if format.starts_with("yaml") { "yaml".to_string() } else { format.clone() };
	let first_req = req.get("first").and_then(Value::as_u64).map(|v| v as usize);
	let size = if format == "yaml16" { size.max(96) / 2 * 2 } else if format == "yaml32" { size.max(192) / 4 * 4 } else if format == "yamlx" { size.max(80) } else { size };
	let from = if req["detect"].as_bool().unwrap_or(false) { None } else { crate::session::parse_format(&fmt_name) };
	// output size of one document, from a one-document run
	let one = {
		let mut out = vec![];
		let doc = make_doc(&format, 0, size);
		let _ = xt::translate_slice(&doc, crate::session::parse_format(&fmt_name), to, &mut out);
		out.len()
	};
	// a first document of another size (a large document followed by small ones)
	let first = first_req.unwrap_or(size).max(size);
	let one_first = if first == size {
		one
	} else {
		let mut out = vec![];
		let doc = make_doc(&format, 0, first);
		let _ = xt::translate_slice(&doc, crate::session::parse_format(&fmt_name), to, &mut out);
		out.len()
	};
	let one = if first == size {
		one
	} else {
		let mut out = vec![];
		let doc = make_doc(&format, 1, size);
		let _ = xt::translate_slice(&doc, crate::session::parse_format(&fmt_name), to, &mut out);
		out.len()
	};
	let written = Rc::new(Cell::new(0));
	let out_doc = Rc::new(Cell::new(one));
	let max_lag = Rc::new(Cell::new(0i64));
	let reads = Rc::new(Cell::new(0usize));
	let reader = GenReader {
		format: format.clone(), n, size, first, out_first: one_first, packet, pos: 0, cur: vec![], cur_index: usize::MAX,
		written: written.clone(), out_doc: out_doc.clone(), max_lag: max_lag.clone(), reads: reads.clone(),
	};
	let base = LIVE.load(Ordering::Relaxed);
	PEAK.store(base, Ordering::Relaxed);
	let res = catch_unwind(AssertUnwindSafe(|| xt::translate_reader(reader, from, to, CountWriter { written: written.clone() })));
	let peak = PEAK.load(Ordering::Relaxed);
	let (ok, err) = match res {
		Ok(Ok(())) => (true, String::new()),
		Ok(Err(e)) => (false, e.to_string()),
		Err(_) => (false, "panic".to_string()),
	};
	json!({"id": req["id"], "ok": ok, "err": err, "peak_over_base": peak.saturating_sub(base), "written": written.get(),
	       "expected_written": if n == 0 { 0 } else { one_first + one * (n - 1) }, "out_doc": one, "max_lag_docs": max_lag.get(), "reads": reads.get()})
}
